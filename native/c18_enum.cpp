// C18 - bounded-exhaustive enumerator for the script-number codec.
// Reference = an arithmetic definition written here (sign-magnitude little endian), independent of script/script.h.
// usage: c18_enum <quick|thorough> <seed> <threads>     -> one JSON object on stdout
#include <script/script.h>
#include <value.h>
#include <atomic>
#include <cstdio>
#include <cstring>
#include <mutex>
#include <string>
#include <thread>
#include <vector>

typedef std::vector<unsigned char> bytes;

// ---- reference definitions (no tree code)
static bool ref_min(const unsigned char* b, int n) {
    if (n == 0) return true;
    if (b[n - 1] & 0x7f) return true;          // top byte carries magnitude bits
    return n > 1 && (b[n - 2] & 0x80);          // top byte is only a sign/padding byte, needed iff the byte below has its high bit set
}
static __int128 ref_dec(const unsigned char* b, int n) {
    if (!n) return 0;
    __int128 m = 0;
    for (int i = 0; i < n; i++) m |= (__int128)(i == n - 1 ? (b[i] & 0x7f) : b[i]) << (8 * i);
    return (b[n - 1] & 0x80) ? -m : m;
}
static bytes ref_enc(long long v) {
    bytes out;
    if (v == 0) return out;
    bool neg = v < 0;
    unsigned long long a = neg ? (unsigned long long)(-(v + 1)) + 1ULL : (unsigned long long)v;
    while (a) { out.push_back((unsigned char)(a % 256)); a /= 256; }
    if (out.back() & 0x80) out.push_back(neg ? 0x80 : 0x00);
    else if (neg) out.back() |= 0x80;
    return out;
}

struct Stats {
    std::atomic<unsigned long long> strings{0}, ints{0}, nontrivial{0}, nonminimal{0}, negative{0};
    std::mutex mu;
    bool failed = false;
    std::string first_fail;     // smallest (first in enumeration order per thread; we keep the lexicographically smallest key)
    std::string first_key;
    void fail(const std::string& key, const std::string& what) {
        std::lock_guard<std::mutex> g(mu);
        if (!failed || key < first_key) { failed = true; first_key = key; first_fail = what; }
    }
} S;

static std::string hex(const bytes& v) { static const char* d = "0123456789abcdef"; std::string s; for (auto c : v) { s += d[c >> 4]; s += d[c & 15]; } return s; }

static void check_string(const bytes& v, int maxlen, bool with_value) {
    int n = (int)v.size();
    S.strings++;
    bool rmin = ref_min(v.data(), n);
    __int128 rdec = ref_dec(v.data(), n);
    if (!rmin || rdec < 0 || n == maxlen) S.nontrivial++;
    if (!rmin) S.nonminimal++;
    if (rdec < 0) S.negative++;
    char key[32]; snprintf(key, sizeof key, "s%02d%s", n, hex(v).c_str());
    // decode
    long long d;
    try { d = CScriptNum(v, false, maxlen).GetInt64(); }
    catch (const scriptnum_error& e) { S.fail(key, "string " + hex(v) + ": decode threw '" + e.what() + "' although length <= max"); return; }
    if ((__int128)d != rdec) { S.fail(key, "string " + hex(v) + ": decodes to " + std::to_string(d) + ", Bitcoin assigns " + std::to_string((long long)rdec)); return; }
    // minimality verdict
    bool thrown = false;
    try { CScriptNum(v, true, maxlen); } catch (const scriptnum_error&) { thrown = true; }
    if (thrown == rmin) { S.fail(key, "string " + hex(v) + ": minimal-encoding verdict is " + (thrown ? "rejected" : "accepted") + ", reference says " + (rmin ? "minimal" : "non-minimal")); return; }
    // re-encode
    bytes e = CScriptNum::serialize(d);
    if ((e == v) != rmin) { S.fail(key, "string " + hex(v) + ": re-encoding of its value gives " + hex(e) + " (round trip must hold exactly for minimal strings)"); return; }
    if (e != ref_enc(d)) { S.fail(key, "value " + std::to_string(d) + ": encoded as " + hex(e) + ", minimal encoding is " + hex(ref_enc(d))); return; }
    if (with_value) {
        // Value(data).int_value() is the debugger's hex->int conversion
        long long iv = Value(v).int_value();
        if (iv != d) { S.fail(key, "Value(0x" + hex(v) + ").int_value() = " + std::to_string(iv) + ", codec says " + std::to_string(d)); return; }
    }
}

static void check_int(long long n, bool with_value) {
    S.ints++;
    char key[40]; snprintf(key, sizeof key, "i%020llu", (unsigned long long)(n < 0 ? -(n + 1) : n) * 2ULL + (n < 0));
    bytes e = CScriptNum::serialize(n);
    bytes r = ref_enc(n);
    if (e != r) { S.fail(key, "integer " + std::to_string(n) + ": encoded as " + hex(e) + ", minimal sign-magnitude encoding is " + hex(r)); return; }
    if (!ref_min(e.data(), (int)e.size())) { S.fail(key, "integer " + std::to_string(n) + ": encoding " + hex(e) + " is not minimal"); return; }
    if (e.size() <= 8) {
        long long d;
        try { d = CScriptNum(e, true, 9).GetInt64(); } catch (const scriptnum_error& x) { S.fail(key, "integer " + std::to_string(n) + ": decoding its own encoding threw " + x.what()); return; }
        if (d != n) { S.fail(key, "integer " + std::to_string(n) + ": decodes back to " + std::to_string(d)); return; }
    }
    if (CScriptNum(n).getvch() != r) { S.fail(key, "integer " + std::to_string(n) + ": CScriptNum(n).getvch() differs from serialize"); return; }
    if (with_value) {
        std::string hs = Value((int64_t)n).hex_str();
        if (hs != hex(r)) { S.fail(key, "Value(" + std::to_string(n) + ").hex_str() = " + hs + ", codec says " + hex(r)); return; }
        // decimal literal -> integer -> data_value
        std::string lit = std::to_string(n);
        Value v(lit.c_str());
        if (v.type != Value::T_INT || v.int64 != n) { S.fail(key, "decimal literal " + lit + " is not read as that integer"); return; }
        if (v.data_value() != r) { S.fail(key, "decimal literal " + lit + ": data_value() = " + hex(v.data) + ", codec says " + hex(r)); return; }
    }
}

static unsigned long long mix(unsigned long long x) { x ^= x >> 33; x *= 0xff51afd7ed558ccdULL; x ^= x >> 33; x *= 0xc4ceb9fe1a85ec53ULL; x ^= x >> 33; return x; }

int main(int argc, char** argv) {
    VALUE_WARN = false;
    btc_logf = btc_logf_dummy;
    bool thorough = argc > 1 && !strcmp(argv[1], "thorough");
    unsigned long long seed = argc > 2 ? strtoull(argv[2], 0, 10) : 1;
    int T = argc > 3 ? atoi(argv[3]) : 16;
    std::vector<std::thread> th;
    // lengths 0..3 exhaustively (2^24+2^16+2^8+1), split by low byte across threads
    for (int t = 0; t < T; t++) th.emplace_back([=]() {
        if (t == 0) { check_string(bytes(), 4, true); }
        for (unsigned x = t; x < 256; x += T) { bytes v{(unsigned char)x}; check_string(v, 4, true); }
        for (unsigned x = t; x < 65536; x += T) { bytes v{(unsigned char)x, (unsigned char)(x >> 8)}; check_string(v, 4, true); }
        for (unsigned x = t; x < (1u << 24); x += T) { bytes v{(unsigned char)x, (unsigned char)(x >> 8), (unsigned char)(x >> 16)}; check_string(v, 4, (x & 0xff) < 8); }
        // 4-byte strings
        bytes v(4);
        if (thorough) {
            unsigned long long lo = (1ULL << 32) * t / T, hi = (1ULL << 32) * (t + 1) / T;
            for (unsigned long long x = lo; x < hi; x++) { v[3] = x; v[2] = x >> 8; v[1] = x >> 16; v[0] = x >> 24; check_string(v, 4, false); }
        } else {
            // stratified 2^24: every top byte x every second byte x 256 injectively chosen low pairs
            for (unsigned b3 = t; b3 < 256; b3 += T) for (unsigned b2 = 0; b2 < 256; b2++) for (unsigned j = 0; j < 256; j++) {
                unsigned long long r = mix(seed ^ ((unsigned long long)b3 << 24 | b2 << 16 | j));
                static const unsigned char edge[4] = {0x00, 0x80, 0xff, 0x7f};
                v[3] = b3; v[2] = b2; v[1] = (j < 16) ? edge[j & 3] : (unsigned char)r; v[0] = (unsigned char)j;   // injective in j
                check_string(v, 4, false);
            }
        }
        // 5-byte strings (lock-time operands): stratified by top byte
        bytes w(5);
        unsigned long long per = thorough ? (1ULL << 16) : (1ULL << 12);
        for (unsigned b4 = t; b4 < 256; b4 += T) for (unsigned long long j = 0; j < per; j++) {
            unsigned long long r = mix(seed * 31 + ((unsigned long long)b4 << 32 | j));
            w[4] = b4; w[3] = (j < 4) ? (j & 1 ? 0x80 : 0x00) : (unsigned char)(r >> 24); w[2] = r >> 16; w[1] = r >> 8; w[0] = r;
            check_string(w, 5, false);
        }
        // integers
        long long step = thorough ? 1 : 256;
        long long span = (1LL << 31);
        long long lo = -span + (2 * span / T) * t, hi = (t == T - 1) ? span + 1 : -span + (2 * span / T) * (t + 1);
        for (long long n = lo; n < hi; n += step) check_int(n, (n & 0xfff) == 0 || (n > -70000 && n < 70000));
        // +-2^k +- {0,1,2} up to 2^63 and a dense pseudo-random sample
        if (t == 0) for (int k = 0; k < 64; k++) for (int d = -2; d <= 2; d++) {
            unsigned long long base = 1ULL << k;
            long long p = (long long)(base + d);
            check_int(p, true);
            if (p != (long long)0x8000000000000000ULL) check_int(-p, true);
        }
        unsigned long long cnt = thorough ? (1ULL << 22) : (1ULL << 18);
        for (unsigned long long j = 0; j < cnt; j++) {
            unsigned long long r = mix(seed * 977 + t * cnt + j);
            int bits = 1 + (int)((r >> 58) % 63);          // magnitudes of every bit length 1..63
            unsigned long long mag = (mix(r) & ((bits == 63 ? 0x7fffffffffffffffULL : ((1ULL << bits) - 1)))) | (1ULL << (bits - 1));
            long long n = (long long)mag;
            if (r & 1) n = -n;
            if (n == (long long)0x8000000000000000ULL) continue;
            check_int(n, (j & 15) == 0);
        }
    });
    for (auto& x : th) x.join();
    // INT64_MIN is outside the script-number range of every opcode but serialize must not misbehave for INT64_MIN+1
    check_int((long long)0x8000000000000001ULL, true);
    auto esc = [](const std::string& s) { std::string o; for (char c : s) { if (c == '"' || c == '\\') o += '\\'; o += c; } return o; };
    printf("{\"strings\":%llu,\"ints\":%llu,\"nontrivial\":%llu,\"nonminimal\":%llu,\"negative\":%llu,\"failed\":%s,\"first_key\":\"%s\",\"first_fail\":\"%s\",\"exhaustive_len4\":%s}\n",
           (unsigned long long)S.strings, (unsigned long long)S.ints, (unsigned long long)S.nontrivial, (unsigned long long)S.nonminimal, (unsigned long long)S.negative,
           S.failed ? "true" : "false", esc(S.first_key).c_str(), esc(S.first_fail).c_str(), thorough ? "true" : "false");
    return 0;
}
