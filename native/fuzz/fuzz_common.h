// shared by the libFuzzer targets: exit() inside library code ends the iteration instead of the campaign,
// global state of the tree is reset at the top of every iteration, oracle failures trap.
#pragma once
#include <fuzzer/FuzzedDataProvider.h>
#include <debugger/script.h>
#include <cstdio>
#include <cstdlib>
#include <string>
#include <vector>

struct ExitEx { int code; };
static bool g_in_target = false;
extern "C" void __real_exit(int);
extern "C" void __wrap_exit(int c) { if (g_in_target) throw ExitEx{c}; __real_exit(c); }

static inline void reset_tree_globals() {
    btc_logf = btc_logf_dummy; btc_segwit_logf = btc_sign_logf = btc_taproot_logf = btc_sighash_logf = btc_logf_dummy;
    btcdeb_verbose = false;
}
#define ORACLE(cond, msg) do { if (!(cond)) { fprintf(stderr, "ORACLE FAILED: %s (%s:%d)\n", msg, __FILE__, __LINE__); __builtin_trap(); } } while (0)
struct InTarget { InTarget() { g_in_target = true; reset_tree_globals(); } ~InTarget() { g_in_target = false; } };
