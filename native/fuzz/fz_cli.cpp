// C09/C15: the static option parsers of btcdeb.cpp (svf_parse_flags, the pretend-valid list, the amount list) with arbitrary strings.
// Oracle: no memory error; a flag list that is accepted yields only defined flag bits.
#define main btcdeb_main
#include <btcdeb.cpp>
#undef main
#include "fuzz_common.h"

extern "C" int LLVMFuzzerTestOneInput(const uint8_t* d, size_t n) {
    InTarget guard;
    if (n < 1 || n > 3000) return 0;
    std::string s((const char*)d + 1, n - 1);
    if (s.find('\0') != std::string::npos) return 0;
    try {
        switch (d[0] % 3) {
        case 0: {
            unsigned f = svf_parse_flags(STANDARD_SCRIPT_VERIFY_FLAGS, s.c_str());
            ORACLE((f & ~0x1fffffu) == 0, "svf_parse_flags produced an undefined flag bit");
            (void)svf_string(f);
            break; }
        case 1: { Instance inst; (void)inst.parse_pretend_valid_expr(s.c_str()); break; }
        case 2: { Instance inst; (void)inst.parse_transaction(s.c_str(), true); break; }
        }
    } catch (const ExitEx&) {
    } catch (const std::exception&) {
    }
    return 0;
}
