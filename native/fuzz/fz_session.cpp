// C01/C04/C15/C16: FuzzedDataProvider decodes flags, sig version, -z, stack, script and a command list.
// Invariants: `step; rewind` restores the dumped state; state after a history == a fresh session advanced by the net count;
// stepping to the end == ContinueScript outcome; no sanitizer report.
#include "fuzz_common.h"
#include <instance.h>
#include <functions.h>
#include <script/script_error.h>
#include <sstream>

static std::string dumpstate(InterpreterEnv* e) {
    std::ostringstream o;
    for (auto& x : e->stack) o << HexStr(x) << ",";
    o << "|";
    for (auto& x : e->altstack) o << HexStr(x) << ",";
    o << "|";
    for (size_t i = 0; i < e->vfExec.size(); i++) o << (e->vfExec.at(i) ? '1' : '0');
    o << "|" << (e->pc - e->script.begin()) << "|" << e->nOpCount << "|" << e->curr_op_seq << "|" << (e->pbegincodehash - e->script.begin()) << "|" << e->opcode_pos << "|" << e->execdata.m_codeseparator_pos << "|" << e->done;
    return o.str();
}
struct Sess {
    Instance inst; bool ok = false;
    Sess(const std::vector<uint8_t>& script, const std::vector<std::vector<uint8_t>>& stack, unsigned flags, int sv, bool z) {
        if (!inst.parse_script(script)) return;
        inst.stack = stack;
        inst.sigver = (SigVersion)sv;
        if (sv == 3) { inst.execdata.m_validation_weight_left = 500; inst.execdata.m_validation_weight_left_init = true; inst.execdata.m_annex_init = true; inst.execdata.m_annex_present = false; inst.execdata.m_tapleaf_hash_init = true; }
        inst.pretend_valid_map[{0xaa}] = {0xbb}; inst.pretend_valid_pubkeys.insert({0xbb});
        if (!inst.setup_environment(flags)) return;
        inst.env->allow_disabled_opcodes = z;
        ok = true;
    }
};

extern "C" int LLVMFuzzerTestOneInput(const uint8_t* data, size_t size) {
    InTarget guard;
    FuzzedDataProvider fdp(data, size);
    unsigned flags = fdp.ConsumeIntegral<uint32_t>() & 0x1fffff;
    int sv = fdp.PickValueInArray({0, 1, 3});
    bool z = fdp.ConsumeBool();
    std::vector<std::vector<uint8_t>> stack;
    int ns = fdp.ConsumeIntegralInRange<int>(0, 5);
    for (int i = 0; i < ns; i++) stack.push_back(fdp.ConsumeBytes<uint8_t>(fdp.ConsumeIntegralInRange<int>(0, 6)));
    std::string cmds = fdp.ConsumeBytesAsString(fdp.ConsumeIntegralInRange<int>(0, 24));
    std::vector<uint8_t> script = fdp.ConsumeRemainingBytes<uint8_t>();
    if (script.size() > 400) return 0;
    try {
        Sess a(script, stack, flags, sv, z);
        if (!a.ok) return 0;
        // reference runs: fresh session stepped k times
        std::vector<std::string> fresh;
        bool fresh_fail = false; size_t fresh_steps = 0;
        {
            Sess f(script, stack, flags, sv, z);
            fresh.push_back(dumpstate(f.inst.env));
            while (!f.inst.at_end() && fresh.size() < 600) {
                if (!f.inst.step()) { fresh_fail = true; break; }
                fresh.push_back(dumpstate(f.inst.env));
            }
            fresh_steps = fresh.size() - 1;
        }
        // the command history
        size_t net = 0; bool dead = false;
        for (char c : cmds) {
            if (dead) break;
            if (c & 1) {        // step
                if (a.inst.env->done) continue;
                if (!a.inst.step()) { dead = true; break; }   // histories are only defined while no step fails
                net++;
            } else {            // rewind (as fn_rewind)
                std::string before = dumpstate(a.inst.env);
                if (a.inst.at_start()) continue;
                if (a.inst.rewind()) { ORACLE(net > 0, "rewind accepted at net 0"); net--; }
                else ORACLE(dumpstate(a.inst.env) == before, "a refused rewind changed the state");
            }
            if (net < fresh.size()) ORACLE(dumpstate(a.inst.env) == fresh[net], "state after history differs from a fresh session advanced by the net step count");
        }
        // run to completion must agree with stepping
        if (!dead && fresh.size() < 600) {
            Sess cs(script, stack, flags, sv, z);
            bool ok = false, threw = false;
            try { ok = ContinueScript(*cs.inst.env); } catch (const std::exception&) { threw = true; }
            if (!threw) {
                ORACLE(ok == !fresh_fail, "run-to-completion and stepping disagree about success");
                if (ok) ORACLE(dumpstate(cs.inst.env) == fresh.back(), "run-to-completion final state differs from stepping");
            }
        }
        (void)fresh_steps;
    } catch (const ExitEx&) {
    } catch (const std::exception&) {
    }
    return 0;
}
