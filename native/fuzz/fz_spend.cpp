// C03/C05/C15: two byte strings as --tx / --txin (structure-aware: the corpus holds valid pairs) through exactly main()'s
// sequence: parse_transaction, parse_input_transaction, configure_tx_txin, setup_environment, ContinueScript. Oracle: no crash.
#include "fuzz_common.h"
#include <instance.h>
#include <functions.h>

extern "C" int LLVMFuzzerTestOneInput(const uint8_t* data, size_t size) {
    InTarget guard;
    if (size < 4) return 0;
    FuzzedDataProvider fdp(data, size);
    int select = fdp.ConsumeIntegralInRange<int>(-1, 4);
    unsigned flags = fdp.ConsumeBool() ? STANDARD_SCRIPT_VERIFY_FLAGS : (fdp.ConsumeIntegral<uint32_t>() & 0x1fffff);
    size_t l1 = fdp.ConsumeIntegralInRange<size_t>(0, fdp.remaining_bytes());
    std::vector<uint8_t> a = fdp.ConsumeBytes<uint8_t>(l1);
    std::vector<uint8_t> b = fdp.ConsumeRemainingBytes<uint8_t>();
    std::string txh = HexStr(a), inh = HexStr(b);
    try {
        Instance inst;
        if (!inst.parse_transaction(txh.c_str(), true)) return 0;
        if (inst.tx->vin.empty()) return 0;      // main() refuses this
        if (!inst.parse_input_transaction(inh.c_str(), select)) return 0;
        inst.parse_script("");
        if (!inst.configure_tx_txin()) return 0;
        if (!inst.setup_environment(flags)) return 0;
        int guardsteps = 0;
        while (!inst.at_end() && guardsteps++ < 20000) { if (!inst.step()) break; }
    } catch (const ExitEx&) {
    } catch (const std::exception&) {
    }
    return 0;
}
