// C13/C15: bytes -> UnserializeTransaction; if accepted: re-serialisation equals the consumed prefix, re-parse is field-equal,
// txid = double-SHA256 of the witness-stripped serialisation.
#include "fuzz_common.h"
#include <primitives/transaction.h>
#include <streams.h>
#include <hash.h>
#include <crypto/sha256.h>

extern "C" int LLVMFuzzerTestOneInput(const uint8_t* data, size_t size) {
    InTarget guard;
    std::vector<unsigned char> in(data, data + size);
    CDataStream ss(in, SER_DISK, 0);
    CMutableTransaction mtx;
    try { UnserializeTransaction(mtx, ss); } catch (const std::exception&) { return 0; } catch (const ExitEx&) { return 0; }
    size_t consumed = size - ss.size();
    CTransaction tx(mtx);
    CDataStream out(SER_DISK, 0);
    SerializeTransaction(tx, out);
    std::vector<unsigned char> outv((const unsigned char*)out.data(), (const unsigned char*)out.data() + out.size());
    ORACLE(outv.size() == consumed && std::equal(outv.begin(), outv.end(), in.begin()), "re-serialisation differs from the consumed bytes");
    CDataStream again(outv, SER_DISK, 0);
    CMutableTransaction m2;
    UnserializeTransaction(m2, again);
    CTransaction tx2(m2);
    ORACLE(tx2.GetHash() == tx.GetHash() && tx2.GetWitnessHash() == tx.GetWitnessHash() && tx2.vin.size() == tx.vin.size() && tx2.vout.size() == tx.vout.size() && tx2.nLockTime == tx.nLockTime && tx2.nVersion == tx.nVersion, "re-parse is not field-equal");
    CDataStream stripped(SER_DISK, SERIALIZE_TRANSACTION_NO_WITNESS);
    SerializeTransaction(tx, stripped);
    unsigned char h1[32], h2[32];
    CSHA256().Write((const unsigned char*)stripped.data(), stripped.size()).Finalize(h1);
    CSHA256().Write(h1, 32).Finalize(h2);
    ORACLE(memcmp(h2, tx.GetHash().begin(), 32) == 0, "txid is not the double-SHA256 of the stripped serialisation");
    return 0;
}
