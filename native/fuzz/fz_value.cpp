// C07/C14/C15: text -> Value::parse_args / Value(expr) incl. inline functions and conversions; serialize.
// Oracle: no crash / sanitizer report; a decimal literal re-reads as itself; serialize() of parsed args is valid hex.
#include "fuzz_common.h"
#include <value.h>
#include <functions.h>

extern "C" int LLVMFuzzerTestOneInput(const uint8_t* data, size_t size) {
    InTarget guard;
    VALUE_WARN = false;
    if (size > 2000) return 0;
    std::string s((const char*)data, size);
    if (s.find('\0') != std::string::npos) return 0;
    try {
        std::vector<Value> v = Value::parse_args(s.c_str());
        std::string hex = Value::serialize(v);
        ORACLE(hex.size() % 2 == 0, "serialize() produced an odd number of hex digits");
        Value single(s.c_str());
        (void)single.hex_str();
        if (single.type == Value::T_INT && s.find_first_not_of("-0123456789") == std::string::npos) {
            // (only for plain digit strings: an unknown inline function leaves the inner value's type behind, which no listed property speaks about)
            ORACLE(std::to_string(single.int64) == s, "a digit string classified as integer does not print back as its literal");
        }
        if (single.type != Value::T_STRING) (void)single.int_value();
        Value c(single);
        (void)c.data_value();
        Value r(single);
        if (r.type != Value::T_OPCODE) r.do_reverse();
        Value l(single);
        l.do_len();
        Value p(single);
        p.do_prefix_compact_size();
    } catch (const ExitEx&) {
    } catch (const std::exception&) {
    }
    return 0;
}
