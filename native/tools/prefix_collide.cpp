// Finds two tapscript leaves (<8-byte value> OP_2DROP OP_1) whose BIP341 leaf hashes share their first 8 bytes (parallel distinguished-point collision
// search, ~2^32.5 hashes). Output: the two scripts and hashes as JSON. Used once to produce /verif/corpus/c06_prefix8.json (C06 class `prefix8`):
// sibling hashes that agree in a long prefix, which no generated script list produces by chance.
// build: g++ -O2 -pthread -o prefix_collide prefix_collide.cpp ; run: ./prefix_collide [threads]
#include <cstdint>
#include <cstdio>
#include <cstring>
#include <cstdlib>
#include <thread>
#include <mutex>
#include <atomic>
#include <unordered_map>
#include <vector>

static const uint32_t K[64] = {0x428a2f98,0x71374491,0xb5c0fbcf,0xe9b5dba5,0x3956c25b,0x59f111f1,0x923f82a4,0xab1c5ed5,0xd807aa98,0x12835b01,0x243185be,0x550c7dc3,0x72be5d74,0x80deb1fe,0x9bdc06a7,0xc19bf174,
0xe49b69c1,0xefbe4786,0x0fc19dc6,0x240ca1cc,0x2de92c6f,0x4a7484aa,0x5cb0a9dc,0x76f988da,0x983e5152,0xa831c66d,0xb00327c8,0xbf597fc7,0xc6e00bf3,0xd5a79147,0x06ca6351,0x14292967,
0x27b70a85,0x2e1b2138,0x4d2c6dfc,0x53380d13,0x650a7354,0x766a0abb,0x81c2c92e,0x92722c85,0xa2bfe8a1,0xa81a664b,0xc24b8b70,0xc76c51a3,0xd192e819,0xd6990624,0xf40e3585,0x106aa070,
0x19a4c116,0x1e376c08,0x2748774c,0x34b0bcb5,0x391c0cb3,0x4ed8aa4a,0x5b9cca4f,0x682e6ff3,0x748f82ee,0x78a5636f,0x84c87814,0x8cc70208,0x90befffa,0xa4506ceb,0xbef9a3f7,0xc67178f2};
static inline uint32_t rotr(uint32_t x, int n) { return (x >> n) | (x << (32 - n)); }
static void compress(uint32_t st[8], const uint8_t blk[64]) {
    uint32_t w[64];
    for (int i = 0; i < 16; i++) w[i] = (uint32_t)blk[4*i] << 24 | (uint32_t)blk[4*i+1] << 16 | (uint32_t)blk[4*i+2] << 8 | blk[4*i+3];
    for (int i = 16; i < 64; i++) { uint32_t s0 = rotr(w[i-15],7) ^ rotr(w[i-15],18) ^ (w[i-15] >> 3), s1 = rotr(w[i-2],17) ^ rotr(w[i-2],19) ^ (w[i-2] >> 10); w[i] = w[i-16] + s0 + w[i-7] + s1; }
    uint32_t a=st[0],b=st[1],c=st[2],d=st[3],e=st[4],f=st[5],g=st[6],h=st[7];
    for (int i = 0; i < 64; i++) { uint32_t S1 = rotr(e,6)^rotr(e,11)^rotr(e,25), ch = (e&f)^(~e&g), t1 = h+S1+ch+K[i]+w[i], S0 = rotr(a,2)^rotr(a,13)^rotr(a,22), mj = (a&b)^(a&c)^(b&c), t2 = S0+mj; h=g; g=f; f=e; e=d+t1; d=c; c=b; b=a; a=t1+t2; }
    st[0]+=a; st[1]+=b; st[2]+=c; st[3]+=d; st[4]+=e; st[5]+=f; st[6]+=g; st[7]+=h;
}
static const uint32_t IV[8] = {0x6a09e667,0xbb67ae85,0x3c6ef372,0xa54ff53a,0x510e527f,0x9b05688c,0x1f83d9ab,0x5be0cd19};
static void sha256(const uint8_t* m, size_t n, uint8_t out[32]) {
    uint32_t st[8]; memcpy(st, IV, 32); uint8_t blk[64]; size_t i = 0;
    for (; i + 64 <= n; i += 64) compress(st, m + i);
    size_t r = n - i; memset(blk, 0, 64); memcpy(blk, m + i, r); blk[r] = 0x80;
    if (r >= 56) { compress(st, blk); memset(blk, 0, 64); }
    uint64_t bits = (uint64_t)n * 8; for (int k = 0; k < 8; k++) blk[63-k] = bits >> (8*k);
    compress(st, blk);
    for (int k = 0; k < 8; k++) { out[4*k]=st[k]>>24; out[4*k+1]=st[k]>>16; out[4*k+2]=st[k]>>8; out[4*k+3]=st[k]; }
}
static uint32_t MID[8];   // state after the 64 bytes sha256("TapLeaf") || sha256("TapLeaf")
static void script_of(uint64_t x, uint8_t s[11]) { s[0] = 8; for (int k = 0; k < 8; k++) s[1+k] = x >> (56 - 8*k); s[9] = 0x6d; s[10] = 0x51; }
static void leafhash(uint64_t x, uint8_t out[32]) {
    uint8_t blk[64]; memset(blk, 0, 64); blk[0] = 0xc0; blk[1] = 11; script_of(x, blk + 2); blk[13] = 0x80;
    uint64_t bits = (64 + 13) * 8; for (int k = 0; k < 8; k++) blk[63-k] = bits >> (8*k);
    uint32_t st[8]; memcpy(st, MID, 32); compress(st, blk);
    for (int k = 0; k < 8; k++) { out[4*k]=st[k]>>24; out[4*k+1]=st[k]>>16; out[4*k+2]=st[k]>>8; out[4*k+3]=st[k]; }
}
static inline uint64_t f(uint64_t x) { uint8_t h[32]; leafhash(x, h); uint64_t v = 0; for (int k = 0; k < 8; k++) v = v << 8 | h[k]; return v; }
static const uint64_t DPMASK = (1ull << 20) - 1;
struct Trail { uint64_t start; uint64_t len; };
static std::unordered_map<uint64_t, Trail> table; static std::mutex mu; static std::atomic<bool> done(false);
static uint64_t RA, RB;
static void worker(int id) {
    uint64_t seed = 0x9e3779b97f4a7c15ull * (id + 1);
    while (!done) {
        seed = seed * 6364136223846793005ull + 1442695040888963407ull;
        uint64_t start = seed, x = start, len = 0;
        while (!done) { x = f(x); len++; if ((x & DPMASK) == 0) break; if (len > (40ull << 20)) { len = 0; break; } }
        if (done || !len) continue;
        Trail other; bool hit = false;
        { std::lock_guard<std::mutex> g(mu); auto it = table.find(x); if (it == table.end()) table[x] = Trail{start, len}; else if (it->second.start != start) { other = it->second; hit = true; } }
        if (!hit) continue;
        // walk both trails to the merge point
        uint64_t a = start, la = len, b = other.start, lb = other.len;
        while (la > lb) { a = f(a); la--; }
        while (lb > la) { b = f(b); lb--; }
        if (a == b) continue;     // one trail is a suffix of the other: no collision
        uint64_t fa = f(a), fb = f(b);
        while (fa != fb) { a = fa; b = fb; fa = f(a); fb = f(b); }
        if (a != b) { std::lock_guard<std::mutex> g(mu); if (!done) { RA = a; RB = b; done = true; } }
    }
}
int main(int argc, char** argv) {
    uint8_t tag[32], pre[64]; sha256((const uint8_t*)"TapLeaf", 7, tag); memcpy(pre, tag, 32); memcpy(pre + 32, tag, 32);
    memcpy(MID, IV, 32); compress(MID, pre);
    int n = argc > 1 ? atoi(argv[1]) : 16; std::vector<std::thread> th;
    for (int i = 0; i < n; i++) th.emplace_back(worker, i);
    for (auto& t : th) t.join();
    uint8_t sa[11], sb[11], ha[32], hb[32]; script_of(RA, sa); script_of(RB, sb); leafhash(RA, ha); leafhash(RB, hb);
    auto hex = [](const uint8_t* p, int n) { static char b[8][80]; static int k = 0; char* o = b[k++ & 7]; for (int i = 0; i < n; i++) sprintf(o + 2*i, "%02x", p[i]); return o; };
    printf("{\"script_a\":\"%s\",\"script_b\":\"%s\",\"leafhash_a\":\"%s\",\"leafhash_b\":\"%s\"}\n", hex(sa, 11), hex(sb, 11), hex(ha, 32), hex(hb, 32));
    return 0;
}
