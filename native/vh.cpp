// E2 - native harness: a command server linked against the freshly built objects of the tree.
// One request per line on stdin ("cmd key=value key=value ..."), one JSON reply per line on fd 3
// (the tree prints to stdout/stderr from inside the interpreter, so fd 1/2 are not usable for replies).
// Uses only public declarations of the tree; every request builds fresh objects.
#include <instance.h>
#include <functions.h>
#include <script/script_error.h>
#include <value.h>
#include <streams.h>
#include <cstdio>
#include <cstring>
#include <unistd.h>
#include <fcntl.h>
#include <sys/mman.h>
#include <map>
#include <string>
#include <sstream>
#include <iostream>

typedef std::map<std::string, std::string> kv_t;
static FILE* out = nullptr;

static std::string hx(const std::vector<unsigned char>& v) { return HexStr(v); }
static std::vector<unsigned char> unhx(const std::string& s) { return (s == "-" || s.empty()) ? std::vector<unsigned char>() : ParseHex(s); }
static std::string unhx_s(const std::string& s) { auto v = unhx(s); return std::string(v.begin(), v.end()); }
static std::vector<std::string> split(const std::string& s, char c) {
    std::vector<std::string> r; if (s.empty()) return r; std::stringstream ss(s); std::string it;
    while (std::getline(ss, it, c)) r.push_back(it);
    if (!s.empty() && s.back() == c) r.push_back("");
    return r;
}
static std::string jesc(const std::string& s) {
    std::string o; char b[8];
    for (unsigned char c : s) { if (c == '"' || c == '\\') { o += '\\'; o += c; } else if (c < 0x20 || c >= 0x7f) { snprintf(b, 8, "\\u%04x", c); o += b; } else o += c; }
    return o;
}
static std::string get(const kv_t& kv, const char* k, const char* d = "") { auto it = kv.find(k); return it == kv.end() ? d : it->second; }
static long long geti(const kv_t& kv, const char* k, long long d = 0) { auto it = kv.find(k); return it == kv.end() ? d : atoll(it->second.c_str()); }

static void reset_globals() {
    btc_logf = btc_logf_dummy; btc_segwit_logf = btc_sign_logf = btc_taproot_logf = btc_sighash_logf = btc_logf_dummy;
    btcdeb_verbose = false;
}

static void dump(std::ostream& o, InterpreterEnv* e) {
    o << "{\"st\":[";
    for (size_t i = 0; i < e->stack.size(); i++) o << (i ? "," : "") << "\"" << hx(e->stack[i]) << "\"";
    o << "],\"alt\":[";
    for (size_t i = 0; i < e->altstack.size(); i++) o << (i ? "," : "") << "\"" << hx(e->altstack[i]) << "\"";
    o << "],\"vf\":\"";
    for (size_t i = 0; i < e->vfExec.size(); i++) o << (e->vfExec.at(i) ? '1' : '0');
    o << "\",\"pc\":" << (e->pc - e->script.begin()) << ",\"ops\":" << e->nOpCount << ",\"seq\":" << e->curr_op_seq
      << ",\"cs\":" << (e->pbegincodehash - e->script.begin()) << ",\"opos\":" << e->opcode_pos;
    if (e->execdata.m_codeseparator_pos_init) o << ",\"csp\":" << e->execdata.m_codeseparator_pos;
    if (e->execdata.m_validation_weight_left_init) o << ",\"w\":" << e->execdata.m_validation_weight_left;
    if (e->execdata.m_tapleaf_hash_init) o << ",\"leaf\":\"" << hx(std::vector<unsigned char>(e->execdata.m_tapleaf_hash.begin(), e->execdata.m_tapleaf_hash.end())) << "\"";
    o << ",\"slen\":" << e->script.size() << ",\"succ\":" << e->successor_script.size() << ",\"p2sh\":" << (e->is_p2sh ? 1 : 0)
      << ",\"tce\":" << (e->tce ? 1 : 0) << ",\"done\":" << (e->done ? 1 : 0) << ",\"sv\":" << (int)e->sigversion << "}";
}
// compact dump: only what the C01 oracle compares step by step
static void dump_small(std::ostream& o, InterpreterEnv* e) {
    o << "[[";
    for (size_t i = 0; i < e->stack.size(); i++) o << (i ? "," : "") << "\"" << hx(e->stack[i]) << "\"";
    o << "],[";
    for (size_t i = 0; i < e->altstack.size(); i++) o << (i ? "," : "") << "\"" << hx(e->altstack[i]) << "\"";
    o << "],\"";
    for (size_t i = 0; i < e->vfExec.size(); i++) o << (e->vfExec.at(i) ? '1' : '0');
    o << "\"]";
}

static void put_stack(Instance& inst, const std::string& st) {
    for (auto& it : split(st, ',')) inst.stack.push_back(unhx(it));
}
static void set_tapscript_defaults(Instance& inst, const kv_t& kv) {
    // what configure_tx_txin always sets for a tapscript session (the only real caller)
    inst.execdata.m_validation_weight_left = geti(kv, "weight", 1000000);
    inst.execdata.m_validation_weight_left_init = true;
    inst.execdata.m_annex_init = true;
    inst.execdata.m_annex_present = kv.count("annexhash") > 0;
    if (inst.execdata.m_annex_present) inst.execdata.m_annex_hash = uint256(unhx(get(kv, "annexhash")));
    inst.execdata.m_tapleaf_hash_init = true;
    if (kv.count("leafhash")) inst.execdata.m_tapleaf_hash = uint256(unhx(get(kv, "leafhash")));
}
static void put_mock(Instance& inst, const kv_t& kv) {
    for (auto& p : split(get(kv, "mock"), ',')) {
        auto sk = split(p, ':'); if (sk.size() != 2) continue;
        auto s = unhx(sk[0]), k = unhx(sk[1]);
        inst.pretend_valid_map[s] = k; inst.pretend_valid_pubkeys.insert(k);
    }
}

// prepare an Instance from script/stack/flags/sv (+ optional tx context) exactly through public members
static bool prepare(Instance& inst, const kv_t& kv, std::string& why) {
    auto sb = unhx(get(kv, "script"));
    if (kv.count("tx")) {
        std::string txs = get(kv, "tx");
        try { if (!inst.parse_transaction(txs.c_str(), true)) { why = "tx"; return false; } } catch (std::exception& e) { why = "tx-exception"; return false; }
    }
    if (kv.count("txin")) {
        try { if (!inst.parse_input_transaction(get(kv, "txin").c_str(), (int)geti(kv, "select", -1))) { why = "txin"; return false; } } catch (std::exception& e) { why = "txin-exception"; return false; }
    }
    if (kv.count("idx")) inst.txin_index = geti(kv, "idx");
    if (!inst.parse_script(sb)) { why = "script"; return false; }
    put_stack(inst, get(kv, "stack"));
    put_mock(inst, kv);
    if (kv.count("succ")) { auto s = unhx(get(kv, "succ")); inst.successor_script = CScript(s.begin(), s.end()); }
    if (kv.count("sv")) inst.sigver = (SigVersion)geti(kv, "sv");
    if (kv.count("preamble")) inst.has_preamble = geti(kv, "preamble");
    if (inst.sigver == SigVersion::TAPSCRIPT || inst.sigver == SigVersion::TAPROOT) set_tapscript_defaults(inst, kv);
    if (!inst.setup_environment((unsigned)geti(kv, "flags"))) { why = "setup:" + inst.error_string(); return false; }
    inst.env->allow_disabled_opcodes = geti(kv, "z") != 0;
    return true;
}

static void finish(std::ostringstream& o, Instance& inst, bool fail, const std::string& exc, int steps) {
    std::string err = fail ? (exc.empty() ? ScriptErrorString(*inst.env->serror) : "exception thrown: " + exc) : "";
    o << ",\"ok\":" << (!fail) << ",\"err\":\"" << jesc(err) << "\",\"exc\":" << (exc.empty() ? 0 : 1) << ",\"steps\":" << steps << ",\"final\":";
    dump(o, inst.env);
}

static void run_loop(std::ostringstream& o, Instance& inst, const kv_t& kv) {
    std::string mode = get(kv, "mode", "step");
    int trace = (int)geti(kv, "trace", 1);
    bool fail = false; int steps = 0; std::string exc;
    if (mode == "step") {
        o << "\"trace\":[";
        bool first = true;
        while (!inst.at_end()) {
            if (!inst.step()) { fail = true; exc = inst.exception_string; break; }
            steps++;
            if (trace) { if (!first) o << ","; first = false; if (trace == 2) dump(o, inst.env); else dump_small(o, inst.env); }
        }
        o << "]";
    } else {
        o << "\"trace\":[]";
        try { if (!ContinueScript(*inst.env)) fail = true; }
        catch (std::exception& e) { fail = true; exc = e.what(); if (exc.empty()) exc = "?"; }
    }
    finish(o, inst, fail, exc, steps);
    int again = (int)geti(kv, "again", 0);
    if (mode == "step" && fail && again > 0) {
        // the user may keep stepping after a failed step: every further step must fail the same way and leave the state alone
        std::ostringstream d1, d2; dump(d1, inst.env);
        std::string first_exc = exc;
        std::string first_err = exc.empty() ? ScriptErrorString(*inst.env->serror) : "exception thrown: " + exc;
        o << ",\"again\":[";
        for (int i = 0; i < again; ++i) {
            bool acc; std::string err;
            if (inst.env->done) { acc = false; err = "done"; }
            else { acc = inst.step(); err = acc ? "" : (inst.exception_string.empty() ? ScriptErrorString(*inst.env->serror) : "exception thrown: " + inst.exception_string); }
            o << (i ? "," : "") << "{\"acc\":" << acc << ",\"err\":\"" << jesc(err) << "\"}";
        }
        dump(d2, inst.env);
        o << "],\"again_same_state\":" << (d1.str() == d2.str() ? 1 : 0) << ",\"first_err\":\"" << jesc(first_err) << "\"";
        exc = first_exc;
    }
}

static void cmd_run(const kv_t& kv) {
    Instance inst; std::string why; std::ostringstream o;
    if (!prepare(inst, kv, why)) { fprintf(out, "{\"refused\":\"%s\"}\n", jesc(why).c_str()); return; }
    o << "{";
    run_loop(o, inst, kv);
    o << "}";
    fprintf(out, "%s\n", o.str().c_str());
}

static void cmd_session(const kv_t& kv) {
    Instance inst; std::string why; std::ostringstream o;
    bool ok;
    if (kv.count("spendtx")) {
        // spend session
        kv_t k2 = kv;
        try {
            if (!inst.parse_transaction(get(kv, "spendtx").c_str(), true)) { fprintf(out, "{\"refused\":\"tx\"}\n"); return; }
            if (!inst.parse_input_transaction(get(kv, "spendtxin").c_str(), (int)geti(kv, "select", -1))) { fprintf(out, "{\"refused\":\"txin\"}\n"); return; }
        } catch (std::exception& e) { fprintf(out, "{\"refused\":\"parse-exception\"}\n"); return; }
        inst.parse_script("");
        if (!inst.configure_tx_txin()) { fprintf(out, "{\"refused\":\"configure\"}\n"); return; }
        put_mock(inst, kv);
        if (!inst.setup_environment((unsigned)geti(kv, "flags"))) { fprintf(out, "{\"refused\":\"setup\"}\n"); return; }
        inst.env->allow_disabled_opcodes = geti(kv, "z") != 0;
    } else if (!prepare(inst, kv, why)) { fprintf(out, "{\"refused\":\"%s\"}\n", jesc(why).c_str()); return; }
    o << "{\"init\":"; dump(o, inst.env); o << ",\"log\":[";
    auto cmds = split(get(kv, "cmds"), ',');
    bool first = true;
    for (auto& c : cmds) {
        bool acc = false; std::string err, exc, msg;
        if (c == "s") {
            // as fn_step: refused at end
            if (inst.env->done) acc = false; else { acc = inst.step(); if (!acc) err = inst.error_string(); }
        } else if (c == "r") {
            // as fn_rewind
            if (inst.at_start()) acc = false; else acc = inst.rewind();
        } else if (c.size() >= 2 && c[0] == 'e' && c[1] == ':') {
            auto toks = split(c.substr(2), '+');
            std::vector<std::string> ts; for (auto& t : toks) ts.push_back(unhx_s(t));
            std::vector<char*> av; for (auto& t : ts) av.push_back((char*)t.c_str());
            // what `exec` prints for the user goes to stderr: capture it (the message is part of C16's "reports the same error")
            fflush(stderr);
            int fe = memfd_create("evalerr", 0); int save2 = dup(2); dup2(fe, 2);
            try { acc = inst.eval(av.size(), av.data()); if (!acc) err = ScriptErrorString(*inst.env->serror); }
            catch (std::exception& e) { acc = false; exc = e.what(); if (exc.empty()) exc = "?"; }
            fflush(stderr); dup2(save2, 2); close(save2);
            { char b[2048]; lseek(fe, 0, SEEK_SET); ssize_t n = read(fe, b, sizeof b - 1); if (n > 0) msg.assign(b, n); close(fe); }
        }
        if (!first) o << ","; first = false;
        o << "{\"c\":\"" << c[0] << "\",\"acc\":" << acc << ",\"err\":\"" << jesc(err) << "\",\"exc\":\"" << jesc(exc) << "\",\"msg\":\"" << jesc(msg) << "\",\"d\":"; dump(o, inst.env); o << "}";
    }
    o << "]";
    if (geti(kv, "finish", 0)) {
        // continue to the end, stepping, with small trace
        bool fail = false; int steps = 0; std::string exc;
        o << ",\"rest\":[";
        bool f2 = true;
        while (!inst.at_end()) {
            if (!inst.step()) { fail = true; exc = inst.exception_string; break; }
            steps++; if (!f2) o << ","; f2 = false; dump_small(o, inst.env);
        }
        o << "]";
        finish(o, inst, fail, exc, steps);
    }
    o << "}";
    fprintf(out, "%s\n", o.str().c_str());
}

static void cmd_spend(const kv_t& kv) {
    Instance inst; std::ostringstream o;
    try {
        if (!inst.parse_transaction(get(kv, "tx").c_str(), true)) { fprintf(out, "{\"refused\":\"tx\"}\n"); return; }
        if (!inst.parse_input_transaction(get(kv, "txin").c_str(), (int)geti(kv, "select", -1))) { fprintf(out, "{\"refused\":\"txin\"}\n"); return; }
    } catch (std::exception& e) { fprintf(out, "{\"refused\":\"parse-exception\",\"what\":\"%s\"}\n", jesc(e.what()).c_str()); return; }
    inst.parse_script("");
    if (!inst.configure_tx_txin()) { fprintf(out, "{\"refused\":\"configure\"}\n"); return; }
    put_mock(inst, kv);
    if (!inst.setup_environment((unsigned)geti(kv, "flags"))) { fprintf(out, "{\"refused\":\"setup\",\"err\":\"%s\"}\n", jesc(inst.error_string()).c_str()); return; }
    o << "{\"idx\":" << inst.txin_index << ",\"vout\":" << inst.txin_vout_index << ",\"amount\":" << inst.amounts[inst.txin_index]
      << ",\"sv\":" << (int)inst.sigver << ",\"script\":\"" << hx(std::vector<unsigned char>(inst.script.begin(), inst.script.end())) << "\",\"succscript\":\""
      << hx(std::vector<unsigned char>(inst.successor_script.begin(), inst.successor_script.end())) << "\",\"preamble\":" << inst.has_preamble << ",\"init\":";
    dump(o, inst.env); o << ",";
    run_loop(o, inst, kv);
    o << "}";
    fprintf(out, "%s\n", o.str().c_str());
}

static void cmd_tce(const kv_t& kv) {
    auto control = unhx(get(kv, "control")), program = unhx(get(kv, "program")), sc = unhx(get(kv, "script"));
    std::ostringstream o;
    if (control.size() < 33 || program.size() != 32) { fprintf(out, "{\"refused\":\"precondition\"}\n"); return; }
    uint256 leaf;
    TaprootCommitmentEnv tce(control, program, CScript(sc.begin(), sc.end()), &leaf);
    o << "{\"leaf\":\"" << hx(std::vector<unsigned char>(leaf.begin(), leaf.end())) << "\",\"pathlen\":" << tce.m_path_len << ",\"k\":[\"" << hx(std::vector<unsigned char>(tce.m_k.begin(), tce.m_k.end())) << "\"";
    int iters = 0; const char* res = "loop";
    while (iters < 1000) {
        auto s = tce.Iterate(); iters++;
        if (s == TaprootCommitmentEnv::State::Done) { res = "done"; break; }
        if (s == TaprootCommitmentEnv::State::Failed) { res = "failed"; break; }
        o << ",\"" << hx(std::vector<unsigned char>(tce.m_k.begin(), tce.m_k.end())) << "\"";
    }
    o << "],\"iters\":" << iters << ",\"res\":\"" << res << "\",\"desc\":[";
    auto d = tce.Description();
    for (size_t i = 0; i < d.size(); i++) o << (i ? "," : "") << "\"" << jesc(d[i]) << "\"";
    o << "]}";
    fprintf(out, "%s\n", o.str().c_str());
}

struct ExitEx { int code; };
static bool g_trap_exit = false;

static void cmd_asm(const kv_t& kv) {
    // exactly btcc's main: Value::parse_args(argc, argv, 1) + Value::serialize
    std::vector<std::string> ts; for (auto& t : split(get(kv, "args"), ',')) ts.push_back(unhx_s(t));
    std::vector<const char*> av; av.push_back("btcc"); for (auto& t : ts) av.push_back(t.c_str());
    try {
        std::vector<Value> result = Value::parse_args(av.size(), av.data(), 1);
        std::string s = Value::serialize(result);
        fprintf(out, "{\"hex\":\"%s\"}\n", s.c_str());
    } catch (std::exception& e) { fprintf(out, "{\"exc\":\"%s\"}\n", jesc(e.what()).c_str()); }
}

static const char* tname(int t) { return t == Value::T_STRING ? "str" : t == Value::T_INT ? "int" : t == Value::T_DATA ? "data" : "op"; }
static void cmd_val(const kv_t& kv) {
    std::string e = unhx_s(get(kv, "expr"));
    try {
        Value v(e.c_str());
        std::ostringstream o;
        o << "{\"type\":\"" << tname(v.type) << "\",\"int\":" << (v.type == Value::T_INT ? v.int64 : 0) << ",\"op\":" << (v.type == Value::T_OPCODE ? (int)v.opcode : -1)
          << ",\"str\":\"" << hx(std::vector<unsigned char>(v.str.begin(), v.str.end())) << "\",\"data\":\"" << hx(v.data) << "\"";
        if (geti(kv, "conv", 1) == 2) {
            // only the bytes the value pushes as data (int_value() throws for data of more than 4 bytes)
            Value c(v);
            o << ",\"data_value\":\"" << hx(c.data_value()) << "\"";
        } else if (geti(kv, "conv", 1)) {
            o << ",\"hex_str\":\"" << jesc(v.hex_str()) << "\"";
            if (v.type != Value::T_STRING) o << ",\"int_value\":" << v.int_value();
            Value c(v);
            o << ",\"data_value\":\"" << hx(c.data_value()) << "\"";
        }
        o << "}";
        fprintf(out, "%s\n", o.str().c_str());
    } catch (std::exception& ex) { fprintf(out, "{\"exc\":\"%s\"}\n", jesc(ex.what()).c_str()); }
}

// run fn_tf (the REPL's `tf` command body) with stdout captured
static void cmd_tf(const kv_t& kv) {
    std::string arg = unhx_s(get(kv, "arg"));
    fflush(stdout); fflush(stderr);
    int fd = memfd_create("tfout", 0);
    int fe = memfd_create("tferr", 0);
    int save1 = dup(1), save2 = dup(2);
    dup2(fd, 1); dup2(fe, 2);
    int rv = -99; std::string exc;
    try { rv = fn_tf(arg.c_str()); } catch (std::exception& e) { exc = e.what(); if (exc.empty()) exc = "?"; }
    fflush(stdout); fflush(stderr);
    dup2(save1, 1); dup2(save2, 2); close(save1); close(save2);
    auto slurp = [](int f) { std::string s; char b[4096]; lseek(f, 0, SEEK_SET); ssize_t n; while ((n = read(f, b, sizeof b)) > 0) s.append(b, n); close(f); return s; };
    std::string so = slurp(fd), se = slurp(fe);
    fprintf(out, "{\"rv\":%d,\"out\":\"%s\",\"err\":\"%s\",\"exc\":\"%s\"}\n", rv, jesc(so).c_str(), jesc(se).c_str(), jesc(exc).c_str());
}

// (the harness decodes these transactions itself: it must not depend on an internal helper of the tree whose signature may change)
static CTransactionRef vh_parse_tx(const char* p) {
    std::vector<unsigned char> txData;
    if (!TryHex(p, txData)) return nullptr;
    CDataStream ss(txData, SER_DISK, 0);
    CMutableTransaction mtx;
    UnserializeTransaction(mtx, ss);
    if (!ss.empty()) return nullptr;
    return MakeTransactionRef(CTransaction(mtx));
}
static void cmd_tx(const kv_t& kv) {
    std::string h = unhx_s(get(kv, "text"));
    std::ostringstream o;
    try {
        Instance inst;
        bool amounts = geti(kv, "amounts", 0);
        bool ok = inst.parse_transaction(h.c_str(), amounts);
        if (!ok || !inst.tx) { fprintf(out, "{\"ok\":0}\n"); return; }
        const CTransaction& tx = *inst.tx;
        o << "{\"ok\":1,\"version\":" << tx.nVersion << ",\"locktime\":" << tx.nLockTime << ",\"txid\":\"" << tx.GetHash().ToString() << "\",\"wtxid\":\"" << tx.GetWitnessHash().ToString() << "\",\"haswit\":" << tx.HasWitness() << ",\"sv\":" << (int)inst.sigver << ",\"vin\":[";
        for (size_t i = 0; i < tx.vin.size(); i++) {
            auto& in = tx.vin[i];
            o << (i ? "," : "") << "{\"txid\":\"" << in.prevout.hash.ToString() << "\",\"n\":" << in.prevout.n << ",\"ss\":\"" << hx(std::vector<unsigned char>(in.scriptSig.begin(), in.scriptSig.end())) << "\",\"seq\":" << in.nSequence << ",\"wit\":[";
            for (size_t j = 0; j < in.scriptWitness.stack.size(); j++) o << (j ? "," : "") << "\"" << hx(in.scriptWitness.stack[j]) << "\"";
            o << "]}";
        }
        o << "],\"vout\":[";
        for (size_t i = 0; i < tx.vout.size(); i++) o << (i ? "," : "") << "{\"v\":" << tx.vout[i].nValue << ",\"spk\":\"" << hx(std::vector<unsigned char>(tx.vout[i].scriptPubKey.begin(), tx.vout[i].scriptPubKey.end())) << "\"}";
        CDataStream ss(SER_DISK, 0); SerializeTransaction(tx, ss);
        CDataStream s2(SER_DISK, SERIALIZE_TRANSACTION_NO_WITNESS); SerializeTransaction(tx, s2);
        o << "],\"ser\":\"" << HexStr(ss) << "\",\"ser_nw\":\"" << HexStr(s2) << "\",\"amounts\":[";
        for (size_t i = 0; i < inst.amounts.size(); i++) o << (i ? "," : "") << inst.amounts[i];
        o << "]}";
        fprintf(out, "%s\n", o.str().c_str());
    } catch (std::exception& e) { fprintf(out, "{\"ok\":0,\"exc\":\"%s\"}\n", jesc(e.what()).c_str()); }
}

static std::vector<CTxOut> parse_spent(const std::string& s) {
    std::vector<CTxOut> r;
    for (auto& p : split(s, ';')) { auto av = split(p, ':'); if (av.size() < 1) continue; auto spk = unhx(av.size() > 1 ? av[1] : ""); r.emplace_back(atoll(av[0].c_str()), CScript(spk.begin(), spk.end())); }
    return r;
}

// digest-level access: SignatureHash / SignatureHashSchnorr called directly
static void cmd_sighash(const kv_t& kv) {
    try {
        CTransactionRef tx = vh_parse_tx(get(kv, "tx").c_str());
        if (!tx) { fprintf(out, "{\"ok\":0}\n"); return; }
        unsigned idx = geti(kv, "idx"); int ht = geti(kv, "ht"); int sv = geti(kv, "sv");
        if (sv == 0 || sv == 1) {
            auto sc = unhx(get(kv, "scriptcode"));
            uint256 h = SignatureHash(CScript(sc.begin(), sc.end()), *tx, idx, ht, geti(kv, "amount"), (SigVersion)sv);
            fprintf(out, "{\"ok\":1,\"hash\":\"%s\"}\n", HexStr(h).c_str());
        } else {
            PrecomputedTransactionData td; td.Init(*tx, parse_spent(get(kv, "spent")), true);
            ScriptExecutionData ed;
            ed.m_annex_init = true; ed.m_annex_present = kv.count("annexhash") > 0;
            if (ed.m_annex_present) ed.m_annex_hash = uint256(unhx(get(kv, "annexhash")));
            if (sv == 3) { ed.m_tapleaf_hash_init = true; ed.m_tapleaf_hash = uint256(unhx(get(kv, "leafhash"))); ed.m_codeseparator_pos_init = true; ed.m_codeseparator_pos = (uint32_t)geti(kv, "csp", 0xffffffffLL); }
            uint256 h;
            bool ok = SignatureHashSchnorr(h, ed, *tx, idx, ht, (SigVersion)sv, td, MissingDataBehavior::FAIL);
            fprintf(out, "{\"ok\":%d,\"hash\":\"%s\"}\n", ok, HexStr(h).c_str());
        }
    } catch (std::exception& e) { fprintf(out, "{\"ok\":0,\"exc\":\"%s\"}\n", jesc(e.what()).c_str()); }
}

// direct InterpreterEnv with a checker that knows all spent outputs (multi-input taproot contexts)
static void cmd_direct(const kv_t& kv) {
    try {
        CTransactionRef tx = vh_parse_tx(get(kv, "tx").c_str());
        if (!tx) { fprintf(out, "{\"refused\":\"tx\"}\n"); return; }
        unsigned idx = geti(kv, "idx");
        auto spent = parse_spent(get(kv, "spent"));
        CAmount amount = idx < spent.size() ? spent[idx].nValue : 0;
        PrecomputedTransactionData td; td.Init(*tx, std::move(spent), true);
        TransactionSignatureChecker checker(tx.get(), idx, amount, td, MissingDataBehavior::FAIL);
        std::vector<valtype> stack; for (auto& it : split(get(kv, "stack"), ',')) stack.push_back(unhx(it));
        auto sb = unhx(get(kv, "script")); CScript script(sb.begin(), sb.end());
        ScriptError err;
        int sv = geti(kv, "sv");
        InterpreterEnv env(stack, script, (unsigned)geti(kv, "flags"), checker, (SigVersion)sv, &err);
        if (!env.operational) { fprintf(out, "{\"refused\":\"setup\"}\n"); return; }
        env.execdata.m_codeseparator_pos = 0xFFFFFFFFUL; env.execdata.m_codeseparator_pos_init = true;
        if (sv >= 2) {
            env.execdata.m_validation_weight_left = geti(kv, "weight", 1000000); env.execdata.m_validation_weight_left_init = true;
            env.execdata.m_annex_init = true; env.execdata.m_annex_present = kv.count("annexhash") > 0;
            if (env.execdata.m_annex_present) env.execdata.m_annex_hash = uint256(unhx(get(kv, "annexhash")));
            env.execdata.m_tapleaf_hash_init = true; if (kv.count("leafhash")) env.execdata.m_tapleaf_hash = uint256(unhx(get(kv, "leafhash")));
        }
        std::ostringstream o; o << "{\"trace\":["; bool fail = false; std::string exc; int steps = 0; bool first = true;
        while (!env.done) {
            try { if (!StepScript(env)) { fail = true; break; } } catch (std::exception& e) { fail = true; exc = e.what(); if (exc.empty()) exc = "?"; break; }
            steps++; if (!first) o << ","; first = false; dump_small(o, &env);
        }
        std::string es = fail ? (exc.empty() ? ScriptErrorString(err) : "exception thrown: " + exc) : "";
        o << "],\"ok\":" << (!fail) << ",\"err\":\"" << jesc(es) << "\",\"steps\":" << steps << ",\"final\":"; dump(o, &env); o << "}";
        fprintf(out, "%s\n", o.str().c_str());
    } catch (std::exception& e) { fprintf(out, "{\"refused\":\"exception\",\"what\":\"%s\"}\n", jesc(e.what()).c_str()); }
}

static void cmd_scriptnum(const kv_t& kv) {
    // codec probes used by C18's Python side
    auto b = unhx(get(kv, "bytes")); int maxlen = geti(kv, "max", 4);
    std::ostringstream o; o << "{";
    try { CScriptNum n(b, false, maxlen); o << "\"dec\":" << n.GetInt64() << ",\"reenc\":\"" << hx(n.getvch()) << "\""; } catch (scriptnum_error& e) { o << "\"dec_err\":\"" << jesc(e.what()) << "\""; }
    try { CScriptNum n(b, true, maxlen); o << ",\"min_ok\":1"; } catch (scriptnum_error& e) { o << ",\"min_ok\":0,\"min_err\":\"" << jesc(e.what()) << "\""; }
    if (kv.count("int")) { long long v = atoll(get(kv, "int").c_str()); o << ",\"enc\":\"" << hx(CScriptNum::serialize(v)) << "\",\"valhex\":\"" << Value((int64_t)v).hex_str() << "\""; }
    o << "}";
    fprintf(out, "%s\n", o.str().c_str());
}

extern "C" void __real_exit(int);

int main(int argc, char** argv) {
    out = fdopen(3, "w");
    if (!out || fcntl(3, F_GETFD) < 0) out = stdout;
    else { int dn = open("/dev/null", O_WRONLY); dup2(dn, 1); if (!getenv("VH_KEEP_STDERR")) dup2(dn, 2); }
    ECCVerifyHandle keep;
    std::string line;
    while (std::getline(std::cin, line)) {
        reset_globals();
        std::istringstream is(line); std::string cmd, tok; kv_t kv;
        is >> cmd;
        while (is >> tok) { auto p = tok.find('='); if (p == std::string::npos) kv[tok] = "1"; else kv[tok.substr(0, p)] = tok.substr(p + 1); }
        if (cmd == "run") cmd_run(kv);
        else if (cmd == "session") cmd_session(kv);
        else if (cmd == "spend") cmd_spend(kv);
        else if (cmd == "tce") cmd_tce(kv);
        else if (cmd == "asm") cmd_asm(kv);
        else if (cmd == "val") cmd_val(kv);
        else if (cmd == "tf") cmd_tf(kv);
        else if (cmd == "tx") cmd_tx(kv);
        else if (cmd == "sighash") cmd_sighash(kv);
        else if (cmd == "direct") cmd_direct(kv);
        else if (cmd == "scriptnum") cmd_scriptnum(kv);
        else if (cmd == "ping") fprintf(out, "{\"pong\":1}\n");
        else fprintf(out, "{\"badcmd\":1}\n");
        fflush(out);
    }
    return 0;
}
