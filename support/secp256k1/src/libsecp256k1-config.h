/* src/libsecp256k1-config.h.  Generated from libsecp256k1-config.h.in by configure.  */
/* src/libsecp256k1-config.h.in.  Generated from configure.ac by autoheader.  */

#ifndef LIBSECP256K1_CONFIG_H

#define LIBSECP256K1_CONFIG_H

/* Define this symbol to compile out all VERIFY code */
/* #undef COVERAGE */

/* Set ecmult gen precision bits */
#define ECMULT_GEN_PREC_BITS 4

/* Set window size for ecmult precomputation */
#define ECMULT_WINDOW_SIZE 15

/* Define this symbol to enable the ECDH module */
/* #undef ENABLE_MODULE_ECDH */

/* Define this symbol to enable the extrakeys module */
#define ENABLE_MODULE_EXTRAKEYS 1

/* Define this symbol to enable the ECDSA pubkey recovery module */
#define ENABLE_MODULE_RECOVERY 1

/* Define this symbol to enable the schnorrsig module */
#define ENABLE_MODULE_SCHNORRSIG 1

/* Define to 1 if you have the <dlfcn.h> header file. */
#define HAVE_DLFCN_H 1

/* Define to 1 if you have the <inttypes.h> header file. */
#define HAVE_INTTYPES_H 1

/* Define to 1 if you have the <stdint.h> header file. */
#define HAVE_STDINT_H 1

/* Define to 1 if you have the <stdio.h> header file. */
#define HAVE_STDIO_H 1

/* Define to 1 if you have the <stdlib.h> header file. */
#define HAVE_STDLIB_H 1

/* Define to 1 if you have the <strings.h> header file. */
#define HAVE_STRINGS_H 1

/* Define to 1 if you have the <string.h> header file. */
#define HAVE_STRING_H 1

/* Define to 1 if you have the <sys/stat.h> header file. */
#define HAVE_SYS_STAT_H 1

/* Define to 1 if you have the <sys/types.h> header file. */
#define HAVE_SYS_TYPES_H 1

/* Define to 1 if you have the <unistd.h> header file. */
#define HAVE_UNISTD_H 1

/* Define this symbol if valgrind is installed, and it supports the host
   platform */
#define HAVE_VALGRIND 1

/* Define to the sub-directory where libtool stores uninstalled libraries. */
#define LT_OBJDIR ".libs/"

/* Name of package */
#define PACKAGE "libsecp256k1"

/* Define to the address where bug reports for this package should be sent. */
#define PACKAGE_BUGREPORT "https://github.com/bitcoin-core/secp256k1/issues"

/* Define to the full name of this package. */
#define PACKAGE_NAME "libsecp256k1"

/* Define to the full name and version of this package. */
#define PACKAGE_STRING "libsecp256k1 0.1.0-pre"

/* Define to the one symbol short name of this package. */
#define PACKAGE_TARNAME "libsecp256k1"

/* Define to the home page for this package. */
#define PACKAGE_URL "https://github.com/bitcoin-core/secp256k1"

/* Define to the version of this package. */
#define PACKAGE_VERSION "0.1.0-pre"

/* Define to 1 if all of the C90 standard headers exist (not just the ones
   required in a freestanding environment). This macro is provided for
   backward compatibility; new code need not use it. */
#define STDC_HEADERS 1

/* Define this symbol to enable x86_64 assembly optimizations */
#define USE_ASM_X86_64 1

/* Define this symbol if an external (non-inline) assembly implementation is
   used */
/* #undef USE_EXTERNAL_ASM */

/* Define this symbol if an external implementation of the default callbacks
   is used */
/* #undef USE_EXTERNAL_DEFAULT_CALLBACKS */

/* Define this symbol to force the use of the (unsigned) __int128 based wide
   multiplication implementation */
/* #undef USE_FORCE_WIDEMUL_INT128 */

/* Define this symbol to force the use of the (u)int64_t based wide
   multiplication implementation */
/* #undef USE_FORCE_WIDEMUL_INT64 */

/* Version number of package */
#define VERSION "0.1.0-pre"

#endif /*LIBSECP256K1_CONFIG_H*/
