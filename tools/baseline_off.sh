#!/bin/bash
# Runs the repository's own test suite with the verification guard OFF (no -DBTCDEB_VERIF), from a scratch copy
# of /repo's working tree (the tree itself is never written to). Exit status = the suite's.
set -e
REPO=${VERIF_REPO:-/repo}
S=${VERIF_SCRATCH:-/var/tmp}/btcdeb-baseline.$$
trap 'rm -rf "$S"' EXIT
mkdir -p "$S"
rsync -a --exclude .git --exclude '*.o' --exclude '*.a' --exclude '*.lo' --exclude '*.la' --exclude .libs --exclude .deps \
      --exclude /btcdeb --exclude /btcc --exclude /tap --exclude /test-btcdeb "$REPO"/ "$S"/
cd "$S"
if [ -f Makefile ] && [ -f config/bitcoin-config.h ] && make -s -j16 test-btcdeb >build.log 2>&1; then
  echo "[baseline_off] built test-btcdeb with the project Makefile (guard off)" >&2
else
  echo "[baseline_off] project Makefile unusable here; direct compile with the project flags (guard off)" >&2
  # fall back to a direct compile with the project's flags (g++ -std=c++17, no optimisation, asserts on)
  VERIF=$(cd "$(dirname "$0")/.." && pwd)
  [ -f config/bitcoin-config.h ] || cp "$VERIF/support/config/bitcoin-config.h" config/
  [ -f secp256k1/src/libsecp256k1-config.h ] || cp "$VERIF/support/secp256k1/src/libsecp256k1-config.h" secp256k1/src/
  FL="-std=c++17 -DHAVE_CONFIG_H -I. -Isecp256k1/include -w"
  SRC="arith_uint256 base58 bech32 consensus/merkle crypto/hmac_sha512 crypto/ripemd160 crypto/sha1 crypto/sha256 crypto/sha512 hash primitives/transaction pubkey script/interpreter script/script script/script_error support/cleanse support/lockedpool uint256 util/spanparsing util/strencodings value debugger/hash debugger/interpreter debugger/script instance functions test/catch test/signing test/test-btcdeb test/utils test/value"
  mkdir -p obj; for f in $SRC; do echo $f; done | xargs -P16 -I{} sh -c "mkdir -p obj/\$(dirname {}); g++ $FL -c {}.cpp -o obj/{}.o"
  for c in secp256k1 precomputed_ecmult precomputed_ecmult_gen; do gcc -DHAVE_CONFIG_H -Isecp256k1 -Isecp256k1/include -Isecp256k1/src -O2 -w -c secp256k1/src/$c.c -o obj/$c.o & done
  gcc -std=gnu99 -DHAVE_CONFIG_H -I. -Ikerl -w -c kerl/kerl.c -o obj/kerl.o & wait
  g++ $(find obj -name '*.o') -lreadline -o test-btcdeb
fi
./test-btcdeb "$@"
