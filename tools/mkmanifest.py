#!/usr/bin/env python3
"""Generates /verif/MANIFEST.json from the table below (kept in one place so the manifest is always valid)."""
import json
import os

VERIF = os.path.dirname(os.path.dirname(os.path.abspath(__file__)))

CHECKS = {
    'C01': dict(
        technique='differential property-based testing (Hypothesis) against an independent reference interpreter + bounded-exhaustive enumeration of short scripts',
        text='Generated-input search: grammar-directed, operand-boundary and raw scripts x stacks x flag subsets x {BASE, WITNESS_V0, TAPSCRIPT} plus all 1-letter '
             'and (thorough) all 2-letter scripts over the complete byte alphabet are executed by the real interpreter (Instance::step one operation at a time, '
             'and ContinueScript) and compared state by state and error by error with a reference interpreter that shares no code with the tree. '
             'It cannot prove absence; it finds any deviation reachable by these generators and shrinks it.',
        note='Trusts vf/ref/script.py (validated by vf.setup on the real-chain pairs and by bulk agreement), OpenSSL hashes, and that TAPSCRIPT sessions '
             'carry the execdata configure_tx_txin always sets. The known finding C01-opsuccess is excluded from the BIP342 layer only.',
        design='5/C01'),
    'C10': dict(
        technique='constructive boundary-value property-based testing (Hypothesis) with a differential oracle and a directional oracle taken from the statement',
        text='For every limit and every way of reaching it the generator constructs scripts at L-1, L and L+1 for BASE / WITNESS_V0 / TAPSCRIPT; the debugger must '
             'agree with the reference interpreter (outcome, error identity, number of executed operations, final stacks) and, independently of the reference, must not '
             'report the limit error at or below L and must report exactly it at L+1 (tapscript exemptions: op count and script size). Every case is a boundary case; '
             'the evidence lists the limit x way x version x offset cells that were hit.',
        note='Trusts the reference interpreter for non-limit failures; a >520-byte push inside the script text may be refused at load time (C01 allows that). '
             'Two genuine defects found here were repaired by fix: commits (see known_findings.json).',
        design='5/C10'),
}

ALL = ['C%02d' % i for i in range(1, 19)]
PENDING_REASON = 'check not built yet in this revision of /verif (planned, see DESIGN.md section 5); not a claim that the technique cannot apply'


def main():
    checks = []
    for pid in ALL:
        if pid not in CHECKS:
            continue
        c = CHECKS[pid]
        checks.append(dict(
            property_id=pid,
            quick_cmd='python3-vt -m vf.run %s --tier quick' % pid,
            thorough_cmd='python3-vt -m vf.run %s --tier thorough' % pid,
            evidence_file='/verif/evidence/%s.json' % pid,
            replay_cmd_template='python3-vt -m vf.run %s --replay {path}' % pid,
            engine='vf',
            level_claimed=dict(category='exploration', text=c['text'], design_ref='DESIGN.md section ' + c['design']),
            level_note=c['note'],
            technique=c['technique'],
        ))
    m = dict(
        version=1,
        setup_cmd='python3-vt -m vf.setup',
        hooks=dict(guard='BTCDEB_VERIF',
                   enable='vf/build.py passes -DBTCDEB_VERIF to every compilation of the tree snapshot (no guarded source change exists: the binaries are driven through ptys/pipes and a harness linked against the tree objects)',
                   baseline_off_cmd='/verif/tools/baseline_off.sh',
                   source_commits=[], add_only=True),
        engines=[
            dict(name='vf', path='/verif/vf', serves_properties=sorted(CHECKS), kind_free_text='Python/Hypothesis property-based testing driver: build engine, native harness client, independent reference library, pty/pipe CLI driver'),
            dict(name='vh', path='/verif/native/vh.cpp', serves_properties=sorted(CHECKS), kind_free_text='native harness linked against the freshly built objects of the tree (line protocol, JSON replies on fd 3)'),
        ],
        checks=checks,
        notes='All checks rebuild from the current /repo working tree (content-hashed cache under /verif/.cache, scratch builds under /var/tmp). '
              'Known findings live in /verif/known_findings.json; VERIF_SEED selects the campaign seed.',
        not_applicable=[dict(property_id=p, reason=PENDING_REASON) for p in ALL if p not in CHECKS],
    )
    with open(os.path.join(VERIF, 'MANIFEST.json'), 'w') as f:
        json.dump(m, f, indent=1)
        f.write('\n')


if __name__ == '__main__':
    main()
