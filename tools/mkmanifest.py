#!/usr/bin/env python3
"""Generates /verif/MANIFEST.json from the table below (kept in one place so the manifest is always valid)."""
import json
import os

VERIF = os.path.dirname(os.path.dirname(os.path.abspath(__file__)))

CHECKS = {
    'C01': dict(
        technique='differential property-based testing (Hypothesis) against an independent reference interpreter + bounded-exhaustive enumeration of short scripts',
        text='Generated-input search: grammar-directed, operand-boundary and raw scripts x stacks x flag subsets x {BASE, WITNESS_V0, TAPSCRIPT} plus all 1-letter '
             'and (thorough) all 2-letter scripts over the complete byte alphabet are executed by the real interpreter (Instance::step one operation at a time, '
             'and ContinueScript) and compared state by state and error by error with a reference interpreter that shares no code with the tree. '
             'It cannot prove absence; it finds any deviation reachable by these generators and shrinks it.',
        note='Trusts vf/ref/script.py (validated by vf.setup on the real-chain pairs and by bulk agreement), OpenSSL hashes, and that TAPSCRIPT sessions '
             'carry the execdata configure_tx_txin always sets. The known finding C01-opsuccess is excluded from the BIP342 layer only.',
        design='5/C01'),
    'C02': dict(
        technique='differential property-based testing (Hypothesis) with an independent signer/verifier: reference-signed cases, single-field corruptions, per-step trace and error identity comparison',
        text='Cases = transaction (1-4 in/outs) x input index x amount x {BASE, WITNESS_V0, TAPROOT key path, TAPSCRIPT} x template (CHECKSIG, CHECKSIGVERIFY, P2PKH, k-of-n CHECKMULTISIG(VERIFY) '
             'up to n=20, CHECKSIGADD chains, mixtures, FindAndDelete) x OP_CODESEPARATOR placements incl. unexecuted branches x all 256 ECDSA hash types / defined and undefined Schnorr hash types x '
             'annex x key forms x flag subsets. Signatures come from a signing pass of the reference interpreter over its own legacy/BIP143/BIP341-342 digests and own secp256k1; 21 kinds of '
             'corruption (signature bit, key bit, every signed field, high-S, DER re-encodings, hash-type byte, budget) follow. The debugger interpreter must produce the same per-step states, '
             'the same error identity and the same remaining validation weight; digests are also compared directly.',
        note='Invalid => rejected is established over generated corruptions, not over all signatures. The interpreter is driven with a checker that knows all spent outputs (harness `direct`); the Instance '
             'path is sampled for BASE/WITNESS_V0. Three genuine defects were repaired by fix: commits.',
        design='5/C02'),
    'C03': dict(
        technique='differential property-based testing (Hypothesis) of whole spend sessions against an independent VerifyScript with independently signed funding/spending pairs',
        text='Funding/spending pairs are synthesised for bare P2PK / multisig, P2PKH, P2SH (multisig and keyless scripts), P2WPKH, P2WSH (multisig and keyless), P2SH-wrapped segwit, taproot key path '
             '(with/without annex) and script path (depth 0-5, CHECKSIG / CHECKSIGVERIFY / CHECKSIGADD / keyless / code-separator leaves), with decoy inputs and second inputs spending the same funding '
             'transaction, signed by the reference signer, then optionally corrupted (15 kinds) and run under standard, policy-reduced and activation-reduced flag sets with auto / explicit / wrong / '
             'out-of-range selection. The session verdict (set-up, no error to the end, final stack as validation requires) must equal the reference VerifyScript verdict; selected input, vout and amount '
             'must come from the referenced output; bad selections must be refused; the six real-chain pairs are run through the harness and the real binary.',
        note='Three classes are listed as known findings with narrow signatures (multi-input taproot, activation flags removed, unknown leaf version) and everything outside them is still compared. '
             'Two genuine defects were repaired by fix: commits (witness items re-parsed as numbers, key path with annex).',
        design='5/C03'),
    'C04': dict(
        technique='model-based stateful property testing (Hypothesis histories + complete history trees) with the tree as its own reference: live session vs fresh session advanced by the net step count',
        text='For generated sessions (IF nesting, alt stack, OP_CODESEPARATOR before mocked signature checks, ~201 counted ops, scriptSig->scriptPubKey->P2SH phases, real reference-signed '
             'tapscript and legacy spends) and histories over {step, rewind} - every history up to depth 8/10 for short sessions, random walks up to 60/400 commands otherwise - the complete '
             'state dump after every command must equal that of a fresh session advanced by net = accepted steps - accepted rewinds, continuing to the end must give the same trace and outcome, '
             'and a refused rewind must change nothing.',
        note='Metamorphic: the reference is the same implementation run afresh, so a defect that affects stepping and re-stepping identically is invisible here (C01 covers stepping). '
             'Histories are cut at the first failing step (outside the stated domain). Two genuine defects were repaired by fix: commits.',
        design='5/C04'),
    'C05': dict(
        technique='differential property-based testing (Hypothesis) against an independent BIP341 implementation, with constructed node orderings and single-field corruptions',
        text='(control block, script, program) triples are built by an independent TapLeaf/TapBranch/TapTweak implementation with its own secp256k1 arithmetic: path lengths 0..128, both parities, all '
             'leaf versions, nodes equal to / just below / just above the running hash, internal keys on and off the curve, scripts across the compact-size boundary; each may carry one of eleven '
             'single-field corruptions. TaprootCommitmentEnv is iterated to Done/Failed: the leaf hash, every intermediate hash and the verdict must equal the reference. Control-block size validation '
             '(33+32m, m<=128) and the hand-over of the leaf hash into execution are checked through spend sessions.',
        note='Trusts vf/ref/secp.py + vf/ref/verify.py (validated against the real-chain taproot pairs and BIP340 vector 0).',
        design='5/C05'),
    'C06': dict(
        technique='property-based testing of the real tap / btcdeb binaries against independent BIP341 / BIP350 implementations: exhaustive (n, index) grid + Hypothesis-generated script lists, round trip through --sig',
        text='For every (n, index) with n <= 16 (quick) / n <= 64 (thorough) and for random n up to 1024, random script contents (distinct, equal, signature- and argument-consuming, large) and '
             'address prefixes, the unmodified tap binary is run: the printed address must bech32m-decode to (prefix, version 1, 32-byte Q) and be identical with and without a selected leaf; '
             'the emitted witness must end with scripts[index] and a control block that verifies under the reference BIP341 code against Q with Q = P + H_TapTweak(P||root)G and the stated parity; '
             'the logged sighash (ptys) must equal the reference BIP341/BIP342 digest of the printed transaction; a reference signature passed back with --sig must give a transaction that the '
             'reference VerifyScript and the real btcdeb accept (script path and key path).',
        note='Single-input spending transactions (tap derives the digest from one spent output). Leaf scripts consume the signature tap always places as deepest witness item.',
        design='5/C06'),
    'C07': dict(
        technique='grammar-based property-based testing (Hypothesis) against an executable token->bytes model, plus exhaustive enumeration of all 1- and 2-byte hex literals',
        text='Token sequences drawn from the documented btcc grammar (names with/without OP_, OP_xNN, int64 decimals, hex literals of every length class, brackets to depth 8 with '
             'whitespace/comment variants) are assembled through the same code path as btcc (harness) and by the real btcc binary (sample) and compared byte for byte with a model '
             'derived from the statement; the model output is itself checked to decode to the token sequence with minimal pushes. All 65,792 one- and two-byte literals are enumerated in three contexts.',
        note='Brackets are passed as one argv element (the documented quoted form); comments containing brackets and non-canonical decimals (-0, 007) are outside the grammar and not asserted. '
             'Known finding C07-xff (sentinel collision) is excluded by construction; one genuine defect was repaired by a fix: commit.',
        design='5/C07'),
    'C08': dict(
        technique='differential + metamorphic property-based testing (Hypothesis) of the real btcdeb binary through pipes and pseudo-terminals',
        text='Generated scripts/stacks/flag removals (incl. exception-raising operands) are run through the unmodified btcdeb binary built with the project flags, script on stdin or in argv, '
             'with each pipe/pty combination that makes it non-interactive and under the quiet/debug options and DEBUG_* variables. Exit status, stdout (final stack, lowercase hex, bottom to top) '
             'and stderr (script error) are compared with the reference interpreter; a second delivery/option variant must give the same result; --verbose must be refused; an interactive REPL '
             'session stepped to the end must show the same stack; script texts around the former 1023-character stdin limit are included.',
        note='Exception-class failures only require exit 1 and an error report. Process deadlines count as inconclusive. Two genuine defects were repaired by fix: commits.',
        design='5/C08'),
    'C09': dict(
        technique='property-based testing (Hypothesis): model-based exactness of flag lists against the real binary (pty listing + behavioural probes) and a metamorphic monotonicity relation over flag-set chains',
        text='D1: generated +/- lists over the 21 names are applied to a model of the standard set and compared with the "resulting flags" listing of `btcdeb -v -f...` on ptys, with --default-flags, and with '
             'eleven behavioural probes (a script whose non-interactive outcome depends on exactly one flag); 22 malformed lists incl. over-long names must be rejected. '
             'D2: generated scripts/stacks/versions are executed under chains of flag sets ordered by inclusion; success under a superset must imply success under every subset.',
        note='The standard set is written out in the check (Core\'s STANDARD_SCRIPT_VERIFY_FLAGS). Flags without an effect in a stepping session are checked through the listing only. '
             'Monotonicity for spend sessions is exercised under C03. One genuine defect was repaired by a fix: commit.',
        design='5/C09'),
    'C10': dict(
        technique='constructive boundary-value property-based testing (Hypothesis) with a differential oracle and a directional oracle taken from the statement',
        text='For every limit and every way of reaching it the generator constructs scripts at L-1, L and L+1 for BASE / WITNESS_V0 / TAPSCRIPT; the debugger must '
             'agree with the reference interpreter (outcome, error identity, number of executed operations, final stacks) and, independently of the reference, must not '
             'report the limit error at or below L and must report exactly it at L+1 (tapscript exemptions: op count and script size). Every case is a boundary case; '
             'the evidence lists the limit x way x version x offset cells that were hit.',
        note='Trusts the reference interpreter for non-limit failures; a >520-byte push inside the script text may be refused at load time (C01 allows that). '
             'Two genuine defects found here were repaired by fix: commits (see known_findings.json).',
        design='5/C10'),
    'C11': dict(
        technique='property-based testing (Hypothesis): differential against a reference interpreter with the mock rule, a directional oracle for listed keys, a metamorphic non-interference relation, and the real list parser',
        text='Pair lists (1-6 pairs of arbitrary byte strings, keys shared between pairs) x scripts whose checks use listed pairs, unlisted pairs and mixtures in CHECKSIG, CHECKSIGVERIFY, '
             'CHECKMULTISIG(VERIFY) and CHECKSIGADD x {BASE, WITNESS_V0, TAPSCRIPT} x encoding flags x with/without a transaction: (A) per-step equality with the reference in which a listed pair succeeds '
             'before any other rule; (B) a different signature for a listed key must not be accepted; (C) scripts without listed keys run identically with and without the option and equal the reference; '
             '(D) the real --pretend-valid parser accepts hex / string / inline-expression lists and rejects malformed ones with exit 1.',
        note='Mocked signatures are supplied on the stack; the tapscript weight is not compared for mocked checks; inside CHECKMULTISIG a listed key with another signature only needs to be "not accepted". '
             'Known finding C11-shared-signature (one signature listed for two keys) is probed once per run.',
        design='5/C11'),
    'C12': dict(
        technique='model-based property testing (Hypothesis) of the real REPL through pseudo-terminals: listing vs reference decoding, marker vs the operation a harness replay of the same history executes next',
        text='Generated sessions (plain scripts with every push form incl. empty and 520-byte pushes, P2SH-shaped plain scripts, reference-signed legacy / P2SH / P2WSH / P2SH-P2WPKH spends, tapscript '
             'spends with path length 0-5) are opened in the unmodified btcdeb REPL on ptys; `print` is issued initially and after every command of a generated step/rewind history. Every listing must equal '
             'the reference decoding in execution order (section headers, commitment lines); the marked line and the line echoed by step/rewind must be the operation, script switch or commitment step '
             'that the harness replay of the same history executes next; nothing may be marked when the session is done.',
        note='Ground truth for "what executes next" is the harness (stepping itself is C01/C04). After a failing step nothing is asserted. Sessions the tool refuses to set up are skipped. '
             'Three genuine defects found here were repaired by fix: commits (one of them a crash recorded under C15).',
        design='5/C12'),
    'C13': dict(
        technique='round-trip and differential property-based testing (Hypothesis) against an independent transaction codec, with exhaustive truncation of each generated encoding',
        text='Transactions built by the reference encoder (0..253 inputs/outputs, script lengths across 252/253/65535/65536, witness present/absent/mixed, empty witness items, extreme '
             'versions/values) are decoded through Instance::parse_transaction: every field, the byte-identical re-serialisation, txid and wtxid (OpenSSL double-SHA256) are compared; hex with '
             'whitespace must decode identically; every strict prefix must be rejected; eight kinds of structural corruption must be accepted or rejected exactly as the reference does; amount '
             'prefixes must convert to exact satoshis. A CLI sample checks the displayed txid and the error path of --tx.',
        note='Trailing bytes after a complete encoding are not asserted. Boundary amount forms (exponent, sign) only need to be exact when accepted. Zero-input transactions are decoded here but '
             'not used as session transactions (crash class handled under C15).',
        design='5/C13'),
    'C14': dict(
        technique='property-based testing (Hypothesis) of every tf-table entry against executable definitions: OpenSSL hashes, reference base58/bech32/secp256k1 codecs, big-integer arithmetic; round trips and single-character corruptions',
        text='All 27 transforms are exercised: hashes on byte strings of boundary lengths (0,1,55,56,63,64,65,119,120,252,253,65535,65536) and on strings, in command, inline and opcode form; tagged hashes; '
             'base58check and bech32/bech32m encode/decode round trips and single-character substitutions (accepted exactly when the reference accepts); compact-size prefix, reversal, length; add/sub with and '
             'without a group over the full 256-bit range; Jacobi symbols against the textbook algorithm (cross-checked with Euler\'s criterion); P2PKH address <-> scriptPubKey; pubkey combination, scalar '
             'multiplication, x-only conversion, taproot tweak and signature verification (DER, compact, Schnorr) against own secp256k1 arithmetic. The command form is the REPL command body (harness), sampled through the real REPL.',
        note='Integer operands of add/sub/jacobi are little-endian byte strings (the tool\'s convention). Inline forms exist for 24 of 27 transforms. `reverse` on decimals is not asserted. '
             'Three genuine defects were repaired by fix: commits.',
        design='5/C14'),
    'C15': dict(
        technique='structure-aware property-based fuzzing (Hypothesis) of the sanitizer-built binaries and REPL, coverage-guided libFuzzer targets with in-target oracles, and a valgrind memcheck sample',
        text='(a) btcdeb, btcc and tap built with AddressSanitizer + UBSan (bounds, null, integer division, unreachable/return) are run on valid inputs of the other checks and on mutations of them '
             '(truncation, byte/count/compact-size corruption, out-of-range vout and --select, empty and over-long option values, junk expressions, nesting to 20000 levels, 100 kB arguments, -z operands); '
             '(b) generated REPL command sequences over step/rewind/exec/tf/print/stack/altstack/vfexec/help with adversarial arguments on ptys; (c) five libFuzzer targets (transaction codec round trip, value '
             'parser, step/rewind/continue session invariants, --tx/--txin session, option parsers) with the oracle inside the target; (d) a valgrind memcheck sample of the plain build. Any signal, terminate, '
             'failed assertion, sanitizer or memcheck report is a violation; clean rejection is success; deadlines are inconclusive.',
        note='Signed-overflow / shift UB and leaks are outside the statement. MSan is unusable here (no instrumented libstdc++): uninitialised reads are covered by the valgrind sample only. '
             'Findings are counted by root cause; seven crash root causes found here and two found through C12/C08 were repaired by fix: commits.',
        design='5/C15'),
    'C16': dict(
        technique='differential property-based testing (Hypothesis) of exec against the reference interpreter started from the observed pre-state',
        text='Generated (session, k steps, token list) cases: the harness performs the k steps, then Instance::eval on the tokens, then continues to the end. The reference interpreter '
             'executes the compiled tokens on the pre-state read from the harness (stack, alt stack, condition stack, op count, flags, version) and must reach the same post-state or the same '
             'error; position / remaining script / curr_op_seq must be unchanged; for plain sessions the continuation must equal the reference continuing from the post-state.',
        note='Token grammar as documented by Instance::eval (opcode names, non-zero canonical decimals, bare even-length hex = minimal-form push of those bytes); signature opcodes are not '
             'generated in exec lists. On a failing exec only the error identity and the untouched position are compared (partial effects of a failing operation are unspecified). '
             'Two genuine defects were repaired by fix: commits.',
        design='5/C16'),
    'C17': dict(
        technique='bounded-exhaustive table-driven testing (all operand tuples over a boundary-rich value set) against executable definitions of the 15 functions',
        text='Every one of the 15 re-enabled opcodes is run on every operand tuple of a boundary-rich value set (V^2, V x offsets^2 for SUBSTR), with and without -z, executed and '
             'inside an unexecuted branch, for all three script versions and MINIMALDATA on/off; results are compared with Python definitions of the string, bitwise and signed-integer '
             'functions. A harness death (SIGFPE, assert) is a violation. Exhaustive within the stated value set only.',
        note='Where the opcode name does not fix a result (rounding of negative quotients, shifts of negatives or by counts outside 0..62, operands wider than 4 bytes) any value or '
             'script error is accepted. Four genuine defects found here were repaired by fix: commits.',
        design='5/C17'),
    'C18': dict(
        technique='bounded-exhaustive enumeration (native, multi-threaded) against an independent arithmetic definition + Hypothesis round-trip/differential checks of the conversions',
        text='All byte strings of length 0..3, all 2^32 strings of length 4 (thorough; 2^24 stratified in quick), stratified 5-byte strings and all integers in [-2^31, 2^31] '
             '(thorough) are pushed through the tree codec (decode, minimality verdict, re-encode, encode/decode round trip) and compared with a sign-magnitude definition written '
             'independently; the debugger conversions (decimal/0x literals, int()/hex(), tf int, tf hex) are compared with the same codec on generated values. Exhaustive for lengths 0..4 in the thorough tier.',
        note='Trusts the two independent codec definitions (native/c18_enum.cpp, vf/ref/script.py).',
        design='5/C18'),
}

ALL = ['C%02d' % i for i in range(1, 19)]
PENDING_REASON = 'check not built yet in this revision of /verif (planned, see DESIGN.md section 5); not a claim that the technique cannot apply'


def main():
    checks = []
    for pid in ALL:
        if pid not in CHECKS:
            continue
        c = CHECKS[pid]
        checks.append(dict(
            property_id=pid,
            quick_cmd='python3-vt -m vf.run %s --tier quick' % pid,
            thorough_cmd='python3-vt -m vf.run %s --tier thorough' % pid,
            evidence_file='/verif/evidence/%s.json' % pid,
            replay_cmd_template='python3-vt -m vf.run %s --replay {path}' % pid,
            engine='vf',
            level_claimed=dict(category='exploration', text=c['text'], design_ref='DESIGN.md section ' + c['design']),
            level_note=c['note'],
            technique=c['technique'],
        ))
    m = dict(
        version=1,
        setup_cmd='python3-vt -m vf.setup',
        hooks=dict(guard='BTCDEB_VERIF',
                   enable='vf/build.py passes -DBTCDEB_VERIF to every compilation of the tree snapshot (no guarded source change exists: the binaries are driven through ptys/pipes and a harness linked against the tree objects)',
                   baseline_off_cmd='/verif/tools/baseline_off.sh',
                   source_commits=[], add_only=True),
        engines=[
            dict(name='vf', path='/verif/vf', serves_properties=sorted(CHECKS), kind_free_text='Python/Hypothesis property-based testing driver: build engine, native harness client, independent reference library, pty/pipe CLI driver'),
            dict(name='vh', path='/verif/native/vh.cpp', serves_properties=sorted(CHECKS), kind_free_text='native harness linked against the freshly built objects of the tree (line protocol, JSON replies on fd 3)'),
        ],
        checks=checks,
        notes='All checks rebuild from the current /repo working tree (content-hashed cache under /verif/.cache, scratch builds under /var/tmp). '
              'Known findings live in /verif/known_findings.json; VERIF_SEED selects the campaign seed.',
        not_applicable=[dict(property_id=p, reason=PENDING_REASON) for p in ALL if p not in CHECKS],
    )
    with open(os.path.join(VERIF, 'MANIFEST.json'), 'w') as f:
        json.dump(m, f, indent=1)
        f.write('\n')


if __name__ == '__main__':
    main()
