#!/bin/bash
# creates a scratch git worktree of /repo (HEAD) for a seeded-change sub-agent, outside /repo and /verif, with the ignored
# autotools outputs copied in so that `make -j16 btcdeb btcc tap test-btcdeb` works offline. usage: mkworktree.sh <dir>
set -e
D=$1
git -C /repo worktree add -q "$D" HEAD
rsync -a --exclude .git --exclude '*.o' --exclude '*.a' --exclude '*.lo' --exclude '*.la' --exclude .libs --exclude /btcdeb --exclude /btcc --exclude /tap --exclude /test-btcdeb --ignore-existing /repo/ "$D"/
(cd "$D" && make -s -j16 btcdeb btcc tap test-btcdeb >/dev/null 2>&1 && ./test-btcdeb | tail -1)
