#!/usr/bin/env python3
"""Sensitivity tool: apply one textual mutation to a scratch copy of /repo (never to /repo itself), run the quick tier of
the given checks against it (VERIF_REPO), report detected / missed, delete the copy.

usage: mut.py <name> <file> <old> <new> <CID> [<CID> ...]      (old must occur exactly `count` times; default 1)
       mut.py --patch <patchfile> <CID> ...
"""
import os
import shutil
import subprocess
import sys
import time

VERIF = os.path.dirname(os.path.dirname(os.path.abspath(__file__)))


def main():
    args = sys.argv[1:]
    scratch = '/var/tmp/vfmut.%d' % os.getpid()
    subprocess.check_call(['rsync', '-a', '--exclude', '.git', '--exclude', '*.o', '--exclude', '*.a', '--exclude', '.libs', '--exclude', '*.lo',
                           '/repo/', scratch + '/'])
    try:
        if args[0] == '--patch':
            # a seeded patch made against an older tree (meta.json "base": commit): the files it touches are taken from that commit first,
            # i.e. the mutated tree is the current tree with those files as they were when the patch was written, plus the patch
            meta = os.path.join(os.path.dirname(os.path.abspath(args[1])), 'meta.json')
            base = os.environ.get('MUT_BASE')
            if not base and os.path.exists(meta):
                import json
                base = json.load(open(meta)).get('base')
            if base:
                for l in open(args[1]):
                    if l.startswith('+++ b/'):
                        rel = l[6:].strip()
                        open(os.path.join(scratch, rel), 'wb').write(subprocess.check_output(['git', '-C', '/repo', 'show', '%s:%s' % (base, rel)]))
            subprocess.check_call(['patch', '-p1', '-s', '-d', scratch, '-i', os.path.abspath(args[1])])
            name = os.path.basename(args[1])
            cids = args[2:]
        else:
            name, rel, old, new = args[:4]
            cids = args[4:]
            p = os.path.join(scratch, rel)
            s = open(p).read()
            n = s.count(old)
            if n != 1:
                print('MUT %s: pattern occurs %d times in %s' % (name, n, rel))
                return 2
            open(p, 'w').write(s.replace(old, new))
        env = dict(os.environ, VERIF_REPO=scratch, VERIF_EVIDENCE_DIR=scratch + '/evidence')
        for cid in cids:
            t = time.time()
            r = subprocess.run(['python3-vt', '-m', 'vf.run', cid, '--tier', os.environ.get('MUT_TIER', 'quick')], cwd=VERIF, env=env, stdout=subprocess.PIPE, stderr=subprocess.STDOUT)
            out = r.stdout.decode(errors='replace')
            viol = [l for l in out.splitlines() if l.startswith('VIOLATION')]
            why = [l for l in out.splitlines() if l.startswith('  why:')]
            print('MUT %-28s %s rc=%d %s (%.0fs) %s' % (name, cid, r.returncode, 'DETECTED' if r.returncode == 1 and viol else ('INFRA' if r.returncode == 2 else 'missed'),
                                                       time.time() - t, (why[0][7:100] if why else '')))
            if r.returncode == 2:
                print(out[-1500:])
    finally:
        shutil.rmtree(scratch, ignore_errors=True)


if __name__ == '__main__':
    sys.exit(main())
