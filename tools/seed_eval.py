#!/usr/bin/env python3
"""Confirm a seeded change delivered by a sub-agent in its scratch worktree and run the checks against it.

usage: seed_eval.py <worktree> <seed id> <property id> [<other check ids> ...]
 1. in the worktree (change applied): build, project test suite must pass, SEED/demo.sh must FAIL
 2. git stash the change: rebuild, test suite passes, SEED/demo.sh must PASS; stash pop, rebuild
 3. apply SEED/patch.diff to a scratch copy of /repo (never /repo itself) and run the quick tier of the given checks
 4. store /verif/seeded/<seed id>/{patch.diff, demo/, meta.json}
"""
import json
import os
import shutil
import subprocess
import sys
import time

VERIF = os.path.dirname(os.path.dirname(os.path.abspath(__file__)))


def sh(cmd, cwd, timeout=1800):
    r = subprocess.run(cmd, shell=True, cwd=cwd, stdout=subprocess.PIPE, stderr=subprocess.STDOUT, timeout=timeout)
    return r.returncode, r.stdout.decode(errors='replace')


def main():
    wt, sid, pid = sys.argv[1:4]
    others = sys.argv[4:]
    meta = dict(seed=sid, property=pid, worktree=wt, ran=[])
    patch = os.path.join(wt, 'SEED', 'patch.diff')
    rc, diff = sh('git diff -- . ":(exclude)SEED"', wt)
    if not diff.strip():
        print('no change applied in the worktree')
        return 2
    # the authoritative patch is what is applied in the worktree
    open(patch, 'w').write(diff)
    files = [l[6:] for l in diff.splitlines() if l.startswith('+++ b/')]
    meta['files'] = files
    rc, out = sh('make -s -j16 btcdeb btcc tap test-btcdeb 2>&1 | tail -3', wt)
    rc_t, out_t = sh('./test-btcdeb | tail -2', wt)
    ok_tests = 'All tests passed' in out_t
    rc_d, out_d = sh('bash SEED/demo.sh', wt, timeout=600)
    meta['ran'].append(dict(step='with change', build_tail=out[-200:], tests_pass=ok_tests, demo_rc=rc_d, demo_tail=out_d[-400:]))
    # (git stash is shared between worktrees of one repository: revert/re-apply with the saved patch instead)
    sh('git apply -R SEED/patch.diff', wt)
    sh('make -s -j16 btcdeb btcc tap test-btcdeb 2>&1 | tail -3', wt)
    rc_t2, out_t2 = sh('./test-btcdeb | tail -2', wt)
    rc_d2, out_d2 = sh('bash SEED/demo.sh', wt, timeout=600)
    sh('git apply SEED/patch.diff', wt)
    sh('make -s -j16 btcdeb btcc tap test-btcdeb 2>&1 | tail -3', wt)
    meta['ran'].append(dict(step='without change', tests_pass='All tests passed' in out_t2, demo_rc=rc_d2, demo_tail=out_d2[-400:]))
    confirmed = ok_tests and rc_d != 0 and rc_d2 == 0
    meta['confirmed'] = confirmed
    print('SEED %s: tests pass with change=%s, demo with change rc=%d, demo without change rc=%d -> %s' % (sid, ok_tests, rc_d, rc_d2, 'CONFIRMED' if confirmed else 'NOT CONFIRMED'))
    # detection by the checks
    det = {}
    env = dict(os.environ)
    for cid in [pid] + others:
        t = time.time()
        r = subprocess.run(['python3', os.path.join(VERIF, 'tools', 'mut.py'), '--patch', patch, cid], cwd=VERIF, stdout=subprocess.PIPE, stderr=subprocess.STDOUT, env=env)
        line = [l for l in r.stdout.decode(errors='replace').splitlines() if l.startswith('MUT')]
        det[cid] = line[0] if line else r.stdout.decode(errors='replace')[-300:]
        print('   ', det[cid])
    meta['detection_quick'] = det
    dst = os.path.join(VERIF, 'seeded', sid)
    if os.path.isdir(dst):
        shutil.rmtree(dst)
    os.makedirs(dst)
    shutil.copy(patch, os.path.join(dst, 'patch.diff'))
    shutil.copytree(os.path.join(wt, 'SEED'), os.path.join(dst, 'demo'), ignore=shutil.ignore_patterns('patch.diff', '*.o', 'a.out'))
    readme = os.path.join(wt, 'SEED', 'README.md')
    meta['needs'] = open(readme).read()[:3000] if os.path.exists(readme) else ''
    json.dump(meta, open(os.path.join(dst, 'meta.json'), 'w'), indent=1)
    return 0


if __name__ == '__main__':
    sys.exit(main())
