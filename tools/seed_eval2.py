#!/usr/bin/env python3
"""Round g layout: the worktree holds the ORIGINAL code and SEED/<k>/{patch.diff,demo.sh,README.md} for k = 1, 2.

usage: seed_eval2.py <worktree> <property id> [<other check ids> ...]
for each k: demo on the original code must PASS; apply the patch, build, the project's test suite must pass, the demo must FAIL; revert;
then the patch is applied to a scratch copy of /repo (tools/mut.py --patch) and the quick tier of the given checks runs against it.
Stored as /verif/seeded/<property id>-<round><k> (SEED_ROUND, default g)/{patch.diff, demo/, meta.json}."""
import json
import os
import shutil
import subprocess
import sys

VERIF = os.path.dirname(os.path.dirname(os.path.abspath(__file__)))
BUILD = 'make -s -j16 btcdeb btcc tap test-btcdeb 2>&1 | tail -3'


def sh(cmd, cwd, timeout=1800):
    try:
        r = subprocess.run(cmd, shell=True, cwd=cwd, stdout=subprocess.PIPE, stderr=subprocess.STDOUT, timeout=timeout)
        return r.returncode, r.stdout.decode(errors='replace')
    except subprocess.TimeoutExpired:
        return 124, 'timeout'


def main():
    wt, pid = sys.argv[1:3]
    others = sys.argv[3:]
    base = subprocess.check_output(['git', '-C', wt, 'rev-parse', '--short', 'HEAD']).decode().strip()
    rc, diff = sh('git diff -- . ":(exclude)SEED"', wt)
    if diff.strip():
        print('worktree not at the original code: reverting the applied change first')
        sh('git checkout -- .', wt)
    sh(BUILD, wt)
    for k in ('1', '2'):
        d = os.path.join(wt, 'SEED', k)
        patch = os.path.join(d, 'patch.diff')
        if not os.path.exists(patch):
            print('SEED %s-g%s: no patch delivered' % (pid, k))
            continue
        sid = '%s-%s%s' % (pid, os.environ.get('SEED_ROUND', 'g'), k)
        meta = dict(seed=sid, property=pid, worktree=wt, base=base, ran=[])
        meta['files'] = [l[6:].strip() for l in open(patch) if l.startswith('+++ b/')]
        rc_d0, out_d0 = sh('bash SEED/%s/demo.sh' % k, wt, timeout=900)
        rc_a, out_a = sh('git apply SEED/%s/patch.diff' % k, wt)
        rc_b, out_b = sh(BUILD, wt)
        rc_t, out_t = sh('./test-btcdeb | tail -2', wt)
        ok_tests = 'All tests passed' in out_t
        rc_d1, out_d1 = sh('bash SEED/%s/demo.sh' % k, wt, timeout=900)
        sh('git apply -R SEED/%s/patch.diff' % k, wt)
        sh(BUILD, wt)
        meta['ran'] = [dict(step='original', demo_rc=rc_d0, demo_tail=out_d0[-300:]), dict(step='with change', applies=rc_a == 0, build_tail=out_b[-200:], tests_pass=ok_tests, demo_rc=rc_d1, demo_tail=out_d1[-400:])]
        confirmed = rc_a == 0 and ok_tests and rc_d0 == 0 and rc_d1 != 0
        meta['confirmed'] = confirmed
        print('SEED %s: applies=%s tests pass with change=%s, demo original rc=%d, demo with change rc=%d -> %s' % (sid, rc_a == 0, ok_tests, rc_d0, rc_d1, 'CONFIRMED' if confirmed else 'NOT CONFIRMED'))
        det = {}
        for cid in [pid] + others:
            r = subprocess.run(['python3', os.path.join(VERIF, 'tools', 'mut.py'), '--patch', patch, cid], cwd=VERIF, stdout=subprocess.PIPE, stderr=subprocess.STDOUT, env=dict(os.environ, MUT_BASE=''))
            line = [l for l in r.stdout.decode(errors='replace').splitlines() if l.startswith('MUT')]
            det[cid] = line[0] if line else r.stdout.decode(errors='replace')[-300:]
            print('   ', det[cid])
        meta['detection_quick'] = det
        dst = os.path.join(VERIF, 'seeded', sid)
        if os.path.isdir(dst):
            shutil.rmtree(dst)
        os.makedirs(dst)
        shutil.copy(patch, os.path.join(dst, 'patch.diff'))
        shutil.copytree(d, os.path.join(dst, 'demo'), ignore=shutil.ignore_patterns('patch.diff', '*.o', 'a.out', '__pycache__'))
        readme = os.path.join(d, 'README.md')
        meta['needs'] = open(readme).read()[:3000] if os.path.exists(readme) else ''
        json.dump(meta, open(os.path.join(dst, 'meta.json'), 'w'), indent=1)
    return 0


if __name__ == '__main__':
    sys.exit(main())
