#!/usr/bin/env python3
"""Mutation sweep (sensitivity measurement, never touches /repo): sample N single-token mutants of one source file (relational operators, logical
connectives, small integer literals, true/false, dropped negation), apply each to a scratch copy of /repo, run the quick tier of the given checks
(VERIF_REPO) until one reports a VIOLATION. Prints one line per mutant: DETECTED by <check> | SURVIVED | NOBUILD.

usage: sweep.py <file> <first line> <last line> <n> <seed> <CID> [<CID> ...]        (results appended to /var/tmp/sweep.log)
Survivors are candidates only: many are equivalent mutants or lie outside every listed property; they are triaged by hand."""
import os
import random
import re
import shutil
import subprocess
import sys
import time

VERIF = os.path.dirname(os.path.dirname(os.path.abspath(__file__)))
OPS = [(r'(?<![<>=!])<=(?!=)', '<'), (r'(?<![<>=!-])>=(?!=)', '>'), (r'(?<![<>=!\-])<(?![<=])(?=\s)', '<='), (r'(?<![<>=!\-])>(?![>=])(?=\s)', '>='), (r'==', '!='), (r'!=', '=='),
       (r'&&', '||'), (r'\|\|', '&&'), (r'\btrue\b', 'false'), (r'\bfalse\b', 'true'), (r'!(?=[a-zA-Z_(])', ''), (r'\+ 1\b', '+ 0'), (r'- 1\b', '- 0')]
NUM = re.compile(r'(?<![\w.])(\d{1,6})(?![\w.])')


def mutants(path, lo, hi):
    lines = open(path).read().split('\n')
    out = []
    for i in range(lo - 1, min(hi, len(lines))):
        l = lines[i]
        code = l.split('//')[0]
        if not code.strip() or code.strip().startswith(('#', '*', '/*')) or 'assert' in code or 'printf' in code or 'logf' in code:
            continue
        for pat, rep in OPS:
            for m in re.finditer(pat, code):
                out.append((i, m.start(), m.end(), rep))
        for m in NUM.finditer(code):
            v = int(m.group(1))
            if 2 <= v <= 100000 and not code[:m.start()].rstrip().endswith('case'):
                out.append((i, m.start(), m.end(), str(v + 1)))
                out.append((i, m.start(), m.end(), str(v - 1)))
    return lines, out


def main():
    rel, lo, hi, n, seed = sys.argv[1], int(sys.argv[2]), int(sys.argv[3]), int(sys.argv[4]), int(sys.argv[5])
    cids = sys.argv[6:]
    lines, ms = mutants(os.path.join('/repo', rel), lo, hi)
    rnd = random.Random(seed)
    rnd.shuffle(ms)
    log = open(os.environ.get('SWEEP_LOG', '/var/tmp/sweep.log'), 'a')
    only = None
    if os.environ.get('SWEEP_SURVIVORS'):
        # second pass: only the mutants that an earlier pass logged as SURVIVED (same seed = same list), now against another list of checks
        only = set()
        for l in open(os.environ['SWEEP_SURVIVORS']):
            if l.startswith('SURVIVED') and (' ' + rel + ':') in l:
                body = l.rsplit(' | ', 1)[0]          # (the code text itself may contain '|')
                ln = int(body.split(rel + ':')[1].split()[0])
                newtxt = body.split('  ->  ')[1].strip()
                only.add((ln, newtxt))
        # skip what an interrupted second pass has already judged
        if os.path.exists(os.environ.get('SWEEP_LOG', '')):
            for l in open(os.environ['SWEEP_LOG']):
                if (' ' + rel + ':') in l and '  ->  ' in l:
                    body = l.rsplit(' | ', 1)[0]
                    only.discard((int(body.split(rel + ':')[1].split()[0]), body.split('  ->  ')[1].strip()))
    for (i, a, b, rep) in ms[:n]:
        if only is not None:
            cand = (lines[i][:a] + rep + lines[i][b:]).strip()[:110]
            if (i + 1, cand) not in only:
                continue
        scratch = '/var/tmp/vfsweep.%d' % os.getpid()
        subprocess.check_call(['rsync', '-a', '--delete', '--exclude', '.git', '--exclude', '*.o', '--exclude', '*.a', '--exclude', '.libs', '--exclude', '*.lo', '/repo/', scratch + '/'])
        new = lines[i][:a] + rep + lines[i][b:]
        ml = list(lines)
        ml[i] = new
        open(os.path.join(scratch, rel), 'w').write('\n'.join(ml))
        desc = '%s:%d  %s  ->  %s' % (rel, i + 1, lines[i].strip()[:110], new.strip()[:110])
        env = dict(os.environ, VERIF_REPO=scratch, VERIF_EVIDENCE_DIR=scratch + '/evidence')
        verdict = 'SURVIVED'
        t = time.time()
        for cid in cids:
            r = subprocess.run(['python3-vt', '-m', 'vf.run', cid, '--tier', 'quick'], cwd=VERIF, env=env, stdout=subprocess.PIPE, stderr=subprocess.STDOUT)
            out = r.stdout.decode(errors='replace')
            if r.returncode == 1 and 'VIOLATION' in out:
                why = [l for l in out.splitlines() if l.startswith('  why:')]
                verdict = 'DETECTED by %s (%s)' % (cid, why[0][7:90] if why else '')
                break
            if r.returncode == 2:
                verdict = 'NOBUILD/INFRA (%s)' % out.strip().splitlines()[-1][:100] if out.strip() else 'INFRA'
                break
        line = '%-9s %4.0fs %s | %s' % (verdict.split(' ')[0], time.time() - t, desc, verdict)
        print(line, flush=True)
        log.write(line + '\n')
        log.flush()
        shutil.rmtree(scratch, ignore_errors=True)
        # the per-tree build cache of mutants is of no further use
        cm = os.path.join(VERIF, '.cache-mut')
        if os.path.isdir(cm):
            for d in os.listdir(cm):
                p = os.path.join(cm, d)
                if time.time() - os.path.getmtime(p) > 1800:
                    shutil.rmtree(p, ignore_errors=True)


if __name__ == '__main__':
    main()
