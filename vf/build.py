"""E1 - build engine: snapshot the current /repo working tree, compile it outside /repo and /verif,
keep only linked binaries in /verif/.cache/<hash>-<variant>/.

Every check starts with ensure(variant); a changed tree has a different content hash and is rebuilt.
"""
import fcntl
import hashlib
import os
import shutil
import subprocess
import sys
import time
from concurrent.futures import ThreadPoolExecutor

REPO = os.environ.get('VERIF_REPO', '/repo')
VERIF = os.path.dirname(os.path.dirname(os.path.abspath(__file__)))
# builds of scratch copies (mutation / seeded-change runs) use their own cache so they never evict the real tree's binaries
CACHE = os.path.join(VERIF, '.cache' if REPO == '/repo' else '.cache-mut')
NATIVE = os.path.join(VERIF, 'native')
SUPPORT = os.path.join(VERIF, 'support')
GUARD = 'BTCDEB_VERIF'

SRC_DIRS = ['', 'crypto', 'script', 'debugger', 'primitives', 'util', 'support', 'support/allocators', 'consensus',
            'policy', 'compat', 'kerl', 'config', 'test',
            'secp256k1/src', 'secp256k1/include', 'secp256k1/src/modules/extrakeys', 'secp256k1/src/modules/schnorrsig',
            'secp256k1/src/modules/recovery', 'secp256k1/src/modules/ecdh', 'secp256k1/src/asm']
SRC_EXT = ('.cpp', '.h', '.c', '.hpp')

LIB = ['arith_uint256', 'base58', 'bech32', 'consensus/merkle', 'crypto/hmac_sha512', 'crypto/ripemd160', 'crypto/sha1',
       'crypto/sha256', 'crypto/sha512', 'hash', 'primitives/transaction', 'pubkey', 'script/interpreter', 'script/script',
       'script/script_error', 'support/cleanse', 'support/lockedpool', 'uint256', 'util/spanparsing', 'util/strencodings',
       'value', 'debugger/hash', 'debugger/interpreter', 'debugger/script', 'instance', 'functions']
MAINS = ['btcdeb', 'btcc', 'tap']
SECP_C = ['secp256k1/src/secp256k1.c', 'secp256k1/src/precomputed_ecmult.c', 'secp256k1/src/precomputed_ecmult_gen.c']

UBSAN = '-fsanitize=integer-divide-by-zero,bounds,null,unreachable,return,enum,bool'
VARIANTS = {
    # the project's own flags: g++ -std=c++17, no optimisation, asserts on
    'plain': dict(cxx='g++', cc='gcc', cxxflags=['-std=c++17', '-O0'], ldflags=[]),
    'asan': dict(cxx='g++', cc='gcc',
                 cxxflags=['-std=c++17', '-O1', '-g', '-fno-omit-frame-pointer', '-fsanitize=address', UBSAN,
                           '-fno-sanitize-recover=all'],
                 ldflags=['-fsanitize=address', UBSAN]),
    'fuzz': dict(cxx='clang++', cc='clang',
                 cxxflags=['-std=gnu++17', '-O1', '-g', '-fno-omit-frame-pointer', '-fsanitize=fuzzer-no-link,address', UBSAN,
                           '-fno-sanitize-recover=all'],
                 ldflags=['-fsanitize=address', UBSAN]),
}


def _files(root):
    out = []
    for d in SRC_DIRS:
        p = os.path.join(root, d)
        if not os.path.isdir(p):
            continue
        for f in sorted(os.listdir(p)):
            if f.endswith(SRC_EXT):
                out.append(os.path.join(d, f))
    dt = os.path.join(root, 'doc', 'txs')
    if os.path.isdir(dt):
        for f in sorted(os.listdir(dt)):
            out.append(os.path.join('doc/txs', f))
    return out


def tree_hash(root=REPO):
    h = hashlib.sha256()
    for rel in _files(root):
        if rel in ('config/bitcoin-config.h', 'secp256k1/src/libsecp256k1-config.h'):
            continue
        try:
            with open(os.path.join(root, rel), 'rb') as f:
                data = f.read()
        except OSError:
            continue
        h.update(rel.encode() + b'\0' + hashlib.sha256(data).digest())
    return h.hexdigest()[:16]


def native_hash():
    h = hashlib.sha256()
    for dp, dn, fn in sorted(os.walk(NATIVE)):
        for f in sorted(fn):
            with open(os.path.join(dp, f), 'rb') as fh:
                h.update(f.encode() + b'\0' + hashlib.sha256(fh.read()).digest())
    with open(os.path.abspath(__file__), 'rb') as fh:
        h.update(hashlib.sha256(fh.read()).digest())
    return h.hexdigest()[:8]


class BuildError(Exception):
    pass


def _run(cmd, cwd=None):
    r = subprocess.run(cmd, cwd=cwd, stdout=subprocess.PIPE, stderr=subprocess.STDOUT)
    if r.returncode != 0:
        raise BuildError('command failed: %s\n%s' % (' '.join(cmd), r.stdout.decode(errors='replace')[-4000:]))


def _snapshot(dst, root=REPO):
    os.makedirs(dst, exist_ok=True)
    for rel in _files(root):
        d = os.path.join(dst, rel)
        os.makedirs(os.path.dirname(d), exist_ok=True)
        shutil.copyfile(os.path.join(root, rel), d)
    for rel in ('config/bitcoin-config.h', 'secp256k1/src/libsecp256k1-config.h'):
        d = os.path.join(dst, rel)
        if not os.path.exists(d):
            os.makedirs(os.path.dirname(d), exist_ok=True)
            shutil.copyfile(os.path.join(SUPPORT, rel), d)


def native_targets(variant):
    """(name, source, extra flags, needs_main_objs) for the verification programs linked against the tree"""
    t = []
    if variant in ('plain', 'asan'):
        t.append(('vh', 'vh.cpp'))
    if variant == 'plain':
        t.append(('c18_enum', 'c18_enum.cpp'))
    if variant == 'fuzz':
        for f in sorted(os.listdir(os.path.join(NATIVE, 'fuzz'))):
            if f.endswith('.cpp'):
                t.append((f[:-4], 'fuzz/' + f))
    return [x for x in t if os.path.exists(os.path.join(NATIVE, x[1]))]


def _build(variant, outdir, root=REPO, defines=()):
    v = VARIANTS[variant]
    scratch_root = os.environ.get('VERIF_SCRATCH', '/var/tmp')
    S = os.path.join(scratch_root, 'btcdeb-vf.%d.%s' % (os.getpid(), variant))
    shutil.rmtree(S, ignore_errors=True)
    try:
        src = os.path.join(S, 'src')
        obj = os.path.join(S, 'obj')
        _snapshot(src, root)
        inc = ['-DHAVE_CONFIG_H', '-D' + GUARD, '-I' + src, '-I' + os.path.join(src, 'secp256k1/include'), '-w'] + ['-D' + d for d in defines]
        jobs = []
        for u in LIB + MAINS:
            o = os.path.join(obj, u + '.o')
            os.makedirs(os.path.dirname(o), exist_ok=True)
            jobs.append([v['cxx']] + v['cxxflags'] + inc + ['-c', os.path.join(src, u + '.cpp'), '-o', o])
        secp_inc = ['-DHAVE_CONFIG_H', '-I' + os.path.join(src, 'secp256k1'), '-I' + os.path.join(src, 'secp256k1/include'),
                    '-I' + os.path.join(src, 'secp256k1/src'), '-O2', '-w']
        secp_objs = []
        for c in SECP_C:
            o = os.path.join(obj, os.path.basename(c)[:-2] + '.o')
            secp_objs.append(o)
            jobs.append([v['cc']] + secp_inc + ['-c', os.path.join(src, c), '-o', o])
        kerl_o = os.path.join(obj, 'kerl.o')
        jobs.append([v['cc'], '-std=gnu99', '-DHAVE_CONFIG_H', '-I' + src, '-I' + os.path.join(src, 'kerl'), '-w', '-O0', '-c',
                     os.path.join(src, 'kerl/kerl.c'), '-o', kerl_o])
        nts = native_targets(variant)
        for name, s in nts:
            o = os.path.join(obj, 'native_' + name + '.o')
            extra = ['-I' + NATIVE]
            jobs.append([v['cxx']] + v['cxxflags'] + inc + extra + ['-c', os.path.join(NATIVE, s), '-o', o])
        with ThreadPoolExecutor(max_workers=int(os.environ.get('VERIF_JOBS', '16'))) as ex:
            list(ex.map(_run, jobs))
        libobjs = [os.path.join(obj, u + '.o') for u in LIB if u not in ('instance', 'functions')]
        inst = [os.path.join(obj, 'instance.o'), os.path.join(obj, 'functions.o')]
        links = []
        os.makedirs(outdir + '.tmp', exist_ok=True)
        T = outdir + '.tmp'
        ld = v['ldflags']
        links.append([v['cxx']] + ld + [os.path.join(obj, 'btcdeb.o')] + inst + libobjs + secp_objs + [kerl_o, '-lreadline', '-o', os.path.join(T, 'btcdeb')])
        links.append([v['cxx']] + ld + [os.path.join(obj, 'tap.o')] + inst + libobjs + secp_objs + [kerl_o, '-lreadline', '-o', os.path.join(T, 'tap')])
        links.append([v['cxx']] + ld + [os.path.join(obj, 'btcc.o')] + libobjs + secp_objs + ['-o', os.path.join(T, 'btcc')])
        for name, s in nts:
            o = os.path.join(obj, 'native_' + name + '.o')
            extra = []
            if variant == 'fuzz':
                extra = ['-fsanitize=fuzzer', '-Wl,--wrap=exit']
            # fuzz targets that #include btcdeb.cpp bring their own instance/functions users; link everything except mains
            links.append([v['cxx']] + ld + extra + [o] + inst + libobjs + secp_objs + [kerl_o, '-lreadline', '-lpthread', '-o', os.path.join(T, name)])
        with ThreadPoolExecutor(max_workers=8) as ex:
            list(ex.map(_run, links))
        if os.path.isdir(outdir):
            shutil.rmtree(outdir)
        os.rename(T, outdir)
    finally:
        shutil.rmtree(S, ignore_errors=True)
        shutil.rmtree(outdir + '.tmp', ignore_errors=True)


def _prune(keep_prefixes):
    try:
        ents = [e for e in os.listdir(CACHE) if os.path.isdir(os.path.join(CACHE, e)) and not e.endswith('.tmp')]
    except OSError:
        return
    ents.sort(key=lambda e: os.path.getmtime(os.path.join(CACHE, e)), reverse=True)
    seen = []
    for e in ents:
        pre = e.rsplit('-', 1)[0]
        if pre not in seen:
            seen.append(pre)
        if seen.index(pre) >= 6 and pre not in keep_prefixes:
            shutil.rmtree(os.path.join(CACHE, e), ignore_errors=True)


_MEMO = {}


def ensure(variant='plain', root=REPO, quiet=False):
    """returns the directory holding btcdeb, btcc, tap, vh, ... built from the current tree
    (memoised per process: one check run uses one consistent set of binaries)"""
    if (variant, root) in _MEMO and os.path.isdir(_MEMO[(variant, root)]):
        return _MEMO[(variant, root)]
    out = _ensure(variant, root, quiet)
    _MEMO[(variant, root)] = out
    return out


def _ensure(variant, root, quiet):
    os.makedirs(CACHE, exist_ok=True)
    key = '%s-%s' % (tree_hash(root), native_hash())
    out = os.path.join(CACHE, '%s-%s' % (key, variant))
    lock = open(os.path.join(CACHE, '.lock-' + variant), 'w')
    fcntl.flock(lock, fcntl.LOCK_EX)
    try:
        if os.environ.get('VERIF_NO_CACHE') == '1' and os.path.isdir(out) and not os.environ.get('_VERIF_BUILT_' + variant):
            shutil.rmtree(out)
        if not os.path.isdir(out):
            t0 = time.time()
            if not quiet:
                print('[build] %s variant of tree %s ...' % (variant, key), file=sys.stderr, flush=True)
            _build(variant, out, root)
            os.environ['_VERIF_BUILT_' + variant] = '1'
            if not quiet:
                print('[build] done in %.1fs' % (time.time() - t0), file=sys.stderr, flush=True)
            _prune([key])
        else:
            os.utime(out, None)
    finally:
        fcntl.flock(lock, fcntl.LOCK_UN)
        lock.close()
    return out


if __name__ == '__main__':
    for v in sys.argv[1:] or ['plain']:
        print(ensure(v))
