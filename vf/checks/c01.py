"""C01 - stepping a script follows Bitcoin's script rules at every operation.

Oracle: the independent reference interpreter (vf.ref.script) executed on the same (script, stack, flags, version);
observation: harness `run` in step mode (Instance::step, one operation at a time, state after every operation) and in
continue mode (ContinueScript). Both must equal the reference at every operation, and scripts outside the domain
must be refused."""
import time

from hypothesis import strategies as st

from .. import core
from ..core import Violation
from ..harness import Harness, kvline
from ..ref import script as R, tx as T, verify as V
from ..ref.script import F
from ..gen import scripts as G, limits as L

PID = 'C01'
RULE = ('cases = (script, initial stack, flag set, script version[, tx context]) from grammar-directed generation with abstract stack typing, '
        'operand-boundary generation (every op x boundary operands x every push form), raw byte strings, and bounded-exhaustive enumeration of '
        'all 1-op (and a sample / all of the 2-op) scripts over the complete byte alphabet; non-trivial = at least 3 operations executed '
        'before the end/failure, or a named boundary class (operand-boundary, enumerated, refusal); distinct = hash of the generated case')

OPSUCCESS = set([80, 98] + list(range(126, 130)) + list(range(131, 135)) + [137, 138, 141, 142] + list(range(149, 154)) + list(range(187, 255)))

_H = {}


def harness():
    if 'h' not in _H:
        _H['h'] = Harness('plain')
    return _H['h']


def mk_tx(version, locktime, seq):
    t = T.Tx()
    t.version = version
    t.locktime = locktime
    t.vin = [dict(txid=bytes(range(32)), n=1, script=b'', seq=seq, wit=[])]
    t.vout = [dict(value=1000, spk=b'\x51')]
    return t


def first_success_op(script):
    for e in R.decode(script):
        if e is None:
            return False
        if e[0] in OPSUCCESS:
            return True
    return False


def expected(case):
    script, stack, flags, sv, txc = case['script'], case['stack'], case['flags'], case['sv'], case.get('tx')
    if not R.has_valid_ops(script):
        return {'refused': 'script'}
    ck = None
    if txc:
        ck = V.Checker(mk_tx(*txc), 0, 0, None)
    ed = None
    if sv == R.TAPSCRIPT:
        ed = {'weight': 1000000}
    trace, oc = R.run(script, stack, flags, sv, checker=ck, execdata=ed)
    if oc[0] == 'setup':
        return {'refused': 'setup:' + R.ERR[oc[1]]}
    if len(script) == 0 and oc[0] == 'ok':
        trace = []          # an empty script is 'done' from the start: there is no operation and no bookkeeping step
    e = {'trace': [list(x) for x in trace]}
    if oc[0] == 'ok':
        e.update(ok=1, err='', exc=0)
    elif oc[0] == 'err':
        e.update(ok=0, err=R.ERR.get(oc[1], oc[1]), exc=0)
    else:
        e.update(ok=0, err='exception thrown: ' + oc[1], exc=1)
    return e


def request(case, mode):
    txc = case.get('tx')
    kw = dict(script=case['script'], stack=case['stack'], flags=case['flags'], sv=case['sv'], mode=mode)
    if mode == 'step':
        kw['again'] = 2
    if txc:
        kw['tx'] = '0:' + mk_tx(*txc).ser().hex()
    return kvline('run', **kw)


def case_json(case):
    return dict(script=case['script'].hex(), stack=[x.hex() for x in case['stack']], flags=case['flags'], flag_names=G.flag_names(case['flags']),
                sv=case['sv'], tx=case.get('tx'), cls=case.get('cls'))


def case_from_json(j):
    return dict(script=bytes.fromhex(j['script']), stack=[bytes.fromhex(x) for x in j['stack']], flags=j['flags'], sv=j['sv'],
                tx=tuple(j['tx']) if j.get('tx') else None, cls=j.get('cls'))


def check_case(case, ctx, h=None):
    """compare tree and reference on one case; raises Violation"""
    h = h or harness()
    exp = expected(case)
    got = h.req(request(case, 'step'))
    cj = None
    if 'timeout' in got:
        ctx.inconclusive += 1
        return
    key = b'%s|%s|%d|%d|%r' % (case['script'], b','.join(x.hex().encode() for x in case['stack']), case['flags'], case['sv'], case.get('tx'))
    if 'crash' in got or 'exit' in got:
        raise Violation(case, 'harness died while stepping (%r): a script-level input must never crash the interpreter' % got, observed=got, expected=_short(exp))
    if 'refused' in exp:
        ctx.case(key, True, case_json(case), 'refusal')
        ctx.count('refused')
        if got.get('refused') != exp['refused']:
            raise Violation(case, 'script outside the domain must be refused before execution (%s)' % exp['refused'], observed=_short(got), expected=exp)
        return
    if 'refused' in got:
        raise Violation(case, 'script inside the domain was refused: %s' % got['refused'], observed=got, expected=_short(exp))
    nexec = len(exp['trace'])
    cls = case.get('cls') or 'grammar'
    nontriv = nexec >= 3 or cls in ('operand', 'enum1', 'enum2', 'long', 'deep-if', 'p2sh-shape', 'deep-stack', 'precedence')
    ctx.case(key, nontriv, dict(case_json(case), outcome=exp['err'] or 'ok', ops=nexec), cls)
    ctx.count('outcome:' + (exp['err'] or 'ok'))
    ctx.count('sv:%d' % case['sv'])
    ctx.count('class:' + cls)
    if cls == 'deep-if' and max((len(t[2]) for t in exp['trace']), default=0) >= 256:
        ctx.count('conditional-nesting>=256-levels')
    # step-by-step comparison
    et, gt = exp['trace'], got['trace']
    for i in range(min(len(et), len(gt))):
        if et[i] != gt[i]:
            raise Violation(case, 'state after operation %d differs (main stack / alt stack / condition stack)' % i, observed=gt[i], expected=et[i])
    if len(et) != len(gt):
        raise Violation(case, 'number of executed operations differs: reference %d, debugger %d (outcome ref=%r tree=%r)' % (len(et), len(gt), exp['err'] or 'ok', got['err'] or 'ok'),
                        observed=_short(got), expected=_short(exp))
    if bool(exp['ok']) != bool(got['ok']) or exp['err'] != got['err']:
        raise Violation(case, 'outcome differs: reference %r, debugger %r' % (exp['err'] or 'ok', got['err'] or 'ok'), observed=_short(got), expected=_short(exp))
    # a failure is final: the debugger lets the user step on after a failed step - every further step fails the same way and leaves the state alone
    # (a failed step that leaves something behind lets the session reach an end Bitcoin does not reach)
    if not got['ok'] and 'again' in got:
        ctx.count('failure-is-final-checked')
        for a in got['again']:
            if a['acc'] or a['err'] not in (got['first_err'], 'done'):
                raise Violation(case, 'after the step that failed with %r a further step %s' % (got['first_err'], 'is accepted' if a['acc'] else 'fails differently (%r)' % a['err']), observed=got['again'], expected=got['first_err'])
        if not got['again_same_state']:
            raise Violation(case, 'stepping on after the failed step (%r) changes the session state although every further step fails' % got['first_err'], observed=got['again'])
    # BIP342 layer: a tapscript containing OP_SUCCESSx succeeds unconditionally
    if case['sv'] == R.TAPSCRIPT and first_success_op(case['script']):
        ctx.count('tapscript-with-OP_SUCCESSx')
        layer2_ok = not (case['flags'] & F['DISCOURAGE_OP_SUCCESS'])
        if layer2_ok != bool(got['ok']) or (layer2_ok and len(gt) > 1):
            if core.kf_active('C01-opsuccess'):
                ctx.known_hit('C01-opsuccess', case_json(case))
            else:
                raise Violation(case, 'tapscript containing OP_SUCCESSx must succeed unconditionally (BIP342)', observed=_short(got), expected={'ok': layer2_ok})
    # run to completion must end the same way
    gc = h.req(request(case, 'cont'))
    if 'timeout' in gc:
        ctx.inconclusive += 1
        return
    if 'crash' in gc or 'exit' in gc:
        raise Violation(case, 'harness died in run-to-completion mode (%r)' % gc, observed=gc, expected=_short(exp))
    fin_e = et[-1] if et else [[x.hex() for x in case['stack']], [], '']
    if bool(gc['ok']) != bool(exp['ok']) or (not exp['exc'] and gc['err'] != exp['err']) or bool(gc['exc']) != bool(exp['exc']):
        raise Violation(case, 'run-to-completion outcome differs from stepping/reference: reference %r, debugger %r' % (exp['err'] or 'ok', gc['err'] or 'ok'),
                        observed=_short(gc), expected=_short(exp))
    if exp['ok']:
        f = gc['final']
        vf = f['vf']
        if [f['st'], f['alt'], vf] != fin_e:
            raise Violation(case, 'final state of run-to-completion differs', observed=[f['st'], f['alt'], vf], expected=fin_e)


def _short(r):
    if isinstance(r, dict) and 'trace' in r:
        r = dict(r)
        r['trace'] = r['trace'][-3:]
    return r


# ------------------------------------------------------------------ strategies
txctx = st.one_of(st.none(), st.none(), st.tuples(
    st.sampled_from([1, 2, 2, -1, 0x7fffffff]),
    st.sampled_from([0, 1, 10, 499999999, 500000000, 500000001, 0xffffffff]),
    st.sampled_from([0, 1, 10, 0xffff, 0x400000, 0x400001, 0x40ffff, 0x80000000, 0xfffffffe, 0xffffffff])))


@st.composite
def grammar_cases(draw):
    script, stack = draw(G.grammar_script(with_sig=True))
    return dict(script=script, stack=stack, flags=draw(G.flagsets()), sv=draw(st.sampled_from(G.SIGVERS)), tx=draw(txctx), cls='grammar')


@st.composite
def raw_cases(draw):
    script, stack = draw(G.raw_script(max_len=draw(st.sampled_from([4, 16, 16, 64, 64, 300, 300, 3000, 10000]))))
    return dict(script=script, stack=stack, flags=draw(G.flagsets()), sv=draw(st.sampled_from(G.SIGVERS)), tx=None, cls='raw')


OPERAND_OPS = [(o, n) for cat in ('stack', 'pickroll', 'alt', 'eq', 'arith1', 'arith2', 'within', 'hash', 'verify', 'lock') for (o, n, _d) in G.OPS[cat]] + \
              [(0x63, 1), (0x64, 1), (0x69, 1), (0x73, 1)]
operand_values = st.one_of(st.sampled_from(G.SMALL_NUMS), st.sampled_from(G.BOUNDARY_VALUES), st.integers(-2 ** 31 - 1, 2 ** 31 + 1).map(R.num_enc), st.binary(max_size=6))


@st.composite
def operand_cases(draw):
    """op x boundary operands x every push form, optionally wrapped in IF/ELSE and followed by a second op"""
    op, need = draw(st.sampled_from(OPERAND_OPS))
    extra = draw(st.integers(0, 2))
    vals = [draw(operand_values) for _ in range(need + extra)]
    from_stack = draw(st.integers(0, len(vals)))
    stack = vals[:from_stack]
    body = bytearray()
    for v in vals[from_stack:]:
        body += G.push(v, draw(G.push_how))
    body.append(op)
    if op in (0x63, 0x64):
        body += bytes([0x51, 0x67, 0x52, 0x68])
    if draw(st.integers(0, 3)) == 0:
        op2, _ = draw(st.sampled_from(OPERAND_OPS))
        body.append(op2)
        if op2 in (0x63, 0x64):
            body += bytes([0x51, 0x68])
    wrap = draw(st.integers(0, 5))
    if wrap == 0:
        body = bytes([0x51, 0x63]) + bytes(body) + bytes([0x68])
    elif wrap == 1:
        body = bytes([0x00, 0x63]) + bytes(body) + bytes([0x67, 0x51, 0x68])
    return dict(script=bytes(body), stack=stack, flags=draw(G.flagsets()), sv=draw(st.sampled_from(G.SIGVERS)), tx=draw(txctx), cls='operand')


@st.composite
def long_cases(draw):
    """long scripts around the operation-count / operand-size / key-count boundaries (shared with C10), compared step by step"""
    c = draw(st.one_of(L.opcount(), L.opcount(), L.numsize(), L.multisig_keys()))
    if c.get('succ'):
        c = dict(c, succ=None)
    return dict(script=c['script'], stack=c['stack'], flags=c['flags'], sv=c['sv'], tx=None, cls='long')


@st.composite
def precedence_cases(draw):
    """one operation at which TWO failure conditions hold at once, so that the ORDER of the interpreter's tests decides the reported error: the 202nd
    counted operation (or the 201st / 200th as controls) is a disabled opcode, a reserved / undefined opcode, OP_VERIF, a code separator under
    CONST_SCRIPTCODE, an operation without its operands, an unbalanced OP_ELSE / OP_ENDIF, OP_RETURN ... - executed or inside an unexecuted branch"""
    last = draw(st.one_of(st.sampled_from(sorted(R.DISABLED)), st.sampled_from([0xab, 0x65, 0x66, 0x50, 0x62, 0x89, 0x8a, 0xba, 0xbb, 0xfe, 0xff, 0x93, 0x67, 0x68, 0x6a, 0x69, 0xac, 0xae, 0xb1, 0xb2])))
    n = draw(st.sampled_from([198, 199, 200, 200, 201, 201]))
    unexec = draw(st.booleans())
    filler = draw(st.sampled_from([0x61, 0x61, 0xb0, 0xb9]))
    if unexec:
        # OP_0 OP_IF <n-1 fillers> X OP_ENDIF : OP_IF is the first counted operation
        body = bytes([0x00, 0x63]) + bytes([filler]) * (n - 1) + bytes([last]) + bytes([0x68, 0x51])
    else:
        body = bytes([0x51]) + bytes([filler]) * n + bytes([last])
    flags = draw(G.flagsets())
    if last == 0xab and draw(st.booleans()):
        flags |= F['CONST_SCRIPTCODE']
    if filler in (0xb0, 0xb9) and draw(st.booleans()):
        flags &= ~F['DISCOURAGE_UPGRADABLE_NOPS']
    return dict(script=body, stack=[], flags=flags, sv=draw(st.sampled_from([R.BASE, R.BASE, R.WITNESS_V0, R.TAPSCRIPT])), tx=None, cls='precedence')


@st.composite
def deep_stack_cases(draw):
    """stacks of several hundred items (limit: 1000 with the alt stack): OP_PICK / OP_ROLL with indices beyond one byte and at the far end, OP_DEPTH
    results beyond 255, bulk moves to the alt stack and back, the 2/3-item movers near the limit"""
    n = draw(st.sampled_from([254, 255, 256, 257, 258, 300, 511, 512, 513, 700, 996, 997, 998, 999, 1000, 1001, 1002, 1003]))
    distinct = draw(st.booleans())
    stack = [R.num_enc(i) if distinct else b'\x01' for i in range(n)]
    body = bytearray()
    if n > 1000:
        # more than 1000 items to START with: the limit is tested after each operation (nothing limits the initial stack of a legacy / v0 script), so a first
        # operation that shrinks the stack to 1000 or less makes a valid execution of it - a growing or neutral one fails at operation 0
        body += draw(st.sampled_from([b'\x75', b'\x6d', b'\x6d\x75', b'\x77', b'\x88', b'\x61', b'\x76', b'\x51', b'\x6b', b'\x6d\x6d']))
    for _ in range(draw(st.integers(1, 6))):
        k = draw(st.integers(0, 9))
        if k < 4:
            idx = draw(st.sampled_from([0, 1, 127, 128, 254, 255, 256, 257, 258, 511, 512, n - 3, n - 2, n - 1, n, n + 1]))
            body += G.push(R.num_enc(idx), draw(st.sampled_from([0, 0, 1, 2]))) + bytes([draw(st.sampled_from([0x79, 0x7a]))])
        elif k == 4:
            body += b'\x74'
        elif k == 5:
            m = draw(st.sampled_from([1, 255, 256, 257, n]))
            body += b'\x6b' * m + b'\x6c' * draw(st.sampled_from([0, 1, m, m + 1]))
        elif k == 6:
            body += bytes([draw(st.sampled_from([0x6e, 0x6f, 0x70, 0x71, 0x72, 0x7d, 0x73, 0x76, 0x78]))])
        elif k == 7:
            body += b'\x74' + bytes([draw(st.sampled_from([0x79, 0x7a]))])      # DEPTH PICK / ROLL: index == depth -> one too far
        elif k == 8:
            body += b'\x74\x8c' + bytes([draw(st.sampled_from([0x79, 0x7a]))])  # DEPTH 1SUB PICK / ROLL: the bottom item
        else:
            body += b'\x6d' * draw(st.sampled_from([1, 127, 128, 129, 200]))
    flags = draw(G.flagsets())
    return dict(script=bytes(body), stack=stack, flags=flags, sv=draw(st.sampled_from([R.TAPSCRIPT, R.TAPSCRIPT, R.WITNESS_V0, R.BASE])), tx=None, cls='deep-stack')


@st.composite
def p2sh_shape_cases(draw):
    """scripts of the pay-to-script-hash shape (HASH160 <20 bytes> EQUAL) with the preimage on the stack: as a legacy script under the P2SH flag the
    preimage is then run as a script; as a witness script / tapscript leaf, or without the flag, the shape means nothing"""
    inner = draw(st.one_of(st.sampled_from([b'\x51', b'\x00', b'\x6a', b'\x51\x51\x93', b'\x75\x51', b'\x63\x51\x68', b'', b'\xff', b'\x4c', b'\x52\x53\x94']), st.binary(max_size=12), G.grammar_script(max_ops=8).map(lambda t: t[0])))
    below = [draw(G.small_values) for _ in range(draw(st.integers(0, 3)))]
    if draw(st.integers(0, 4)) == 0:
        # a redeem script that itself has the pay-to-script-hash shape: it is an ordinary script (pay-to-script-hash is evaluated once), the item
        # below it is compared with the hash and never run
        x = draw(st.sampled_from([b'\x51\x52', b'\x6a', b'\x00', b'\x51', b'abc']))
        inner = b'\xa9\x14' + (R.ripemd(R.sha256(x)) if draw(st.integers(0, 4)) else bytes(20)) + b'\x87'
        below = below + [x]
    h = R.ripemd(R.sha256(inner))
    if draw(st.integers(0, 7)) == 0:
        h = bytes(20)
    stack = below + ([inner] if draw(st.integers(0, 9)) else [])
    return dict(script=b'\xa9\x14' + h + b'\x87', stack=stack, flags=draw(G.flagsets()) | (F['P2SH'] if draw(st.integers(0, 3)) else 0), sv=draw(st.sampled_from(G.SIGVERS)), tx=None, cls='p2sh-shape')


@st.composite
def deep_if_cases(draw):
    """conditional nesting far deeper than the grammar generator goes: D nested IF/NOTIF (tapscript has no operation limit, so hundreds of
    levels are legal there; legacy / v0 stop at the 201-operation limit), the first false branch at a chosen level or nowhere, ELSE at a
    cyclic pattern of levels, optionally one ENDIF missing or one too many"""
    sv = draw(st.sampled_from([R.TAPSCRIPT, R.TAPSCRIPT, R.TAPSCRIPT, R.BASE, R.WITNESS_V0]))
    if sv == R.TAPSCRIPT:
        D = draw(st.sampled_from([9, 64, 127, 128, 129, 254, 255, 256, 256, 257, 258, 300, 383, 384, 511, 512, 513, 600]))
    else:
        D = draw(st.sampled_from([9, 50, 66, 67, 99, 100, 101]))
    false_at = draw(st.one_of(st.just(-1), st.just(-1), st.integers(0, D - 1), st.sampled_from([D - 1, D - 2, max(0, D - 256), max(0, D - 255), min(D - 1, 255), min(D - 1, 256)])))
    notif_every = draw(st.sampled_from([0, 0, 2, 3, 7]))
    from_stack = draw(st.booleans()) and D <= 900
    stack = []
    out = bytearray()
    conds = []
    for i in range(D):
        notif = notif_every and i % notif_every == 0
        truth = (i != false_at)
        v = b'\x01' if truth != bool(notif) else b''
        conds.append(v)
        if not from_stack:
            out += G.push(v, 0)
        out.append(0x64 if notif else 0x63)
    if from_stack:
        stack = conds[::-1]
    out += bytes([0x51, 0x75]) if draw(st.booleans()) else b''
    pat = draw(st.lists(st.sampled_from(['', '', 'e', 'en', 'n', 'ee']), min_size=1, max_size=5))
    missing = draw(st.sampled_from([0, 0, 0, 0, 1, -1]))
    for i in range(D - max(0, missing)):
        for ch in pat[i % len(pat)]:
            out.append(0x67 if ch == 'e' else 0x61)
        out.append(0x68)
    if missing < 0:
        out.append(0x68)
    out.append(0x51)
    return dict(script=bytes(out), stack=stack, flags=draw(G.flagsets()), sv=sv, tx=None, cls='deep-if')


# ------------------------------------------------------------------ worker tasks
def w_deep_stack(ctx, wid, seed, examples):
    core.hyp_campaign(ctx, 'deep-stack', deep_stack_cases(), check_case, examples, seed, case_json)


def w_p2sh_shape(ctx, wid, seed, examples):
    core.hyp_campaign(ctx, 'p2sh-shape', p2sh_shape_cases(), check_case, examples, seed, case_json)


def w_precedence(ctx, wid, seed, examples):
    core.hyp_campaign(ctx, 'precedence', precedence_cases(), check_case, examples, seed, case_json)


def w_deep_if(ctx, wid, seed, examples):
    core.hyp_campaign(ctx, 'deep-if', deep_if_cases(), check_case, examples, seed, case_json)


def w_long(ctx, wid, seed, examples):
    core.hyp_campaign(ctx, 'long', long_cases(), check_case, examples, seed, case_json)


def w_grammar(ctx, wid, seed, examples):
    core.hyp_campaign(ctx, 'grammar', grammar_cases(), check_case, examples, seed, case_json)


def w_operand(ctx, wid, seed, examples):
    core.hyp_campaign(ctx, 'operand', operand_cases(), check_case, examples, seed, case_json)


def w_raw(ctx, wid, seed, examples):
    core.hyp_campaign(ctx, 'raw', raw_cases(), check_case, examples, seed, case_json)


ENUM_STACKS = [[], [b''], [b'\x01'], [b'\x01', b'\x01'], [b'\x02', b'\x01', b''], [b'\x80', b'\x00'], [b'\x05', b'\x03', b'\x02'], [b'\x01\x00', b'\x81'],
               [b'\xff\xff\xff\x7f', b'\x01'], [b'\x00\x00\x00\x80\x00', b'\x01'], [b'\x01', b'\x02', b'\x03', b'\x04', b'\x05', b'\x06'], [b'abc', b'abc'],
               [b'\x01', b'\x02', b'\x03', b'\x02'], [bytes(520), b'\x01']]
ENUM_FLAGS = [0, F['MINIMALDATA'] | F['MINIMALIF'] | F['DISCOURAGE_UPGRADABLE_NOPS'] | F['CHECKLOCKTIMEVERIFY'] | F['CHECKSEQUENCEVERIFY'] | F['P2SH'] | F['NULLDUMMY'] | F['NULLFAIL'] | F['STRICTENC'] | F['CONST_SCRIPTCODE'],
              F['MINIMALDATA'] | F['P2SH']]


def enum_unit(b):
    """one 'letter' of the complete alphabet: the opcode byte, with a fixed payload for push opcodes"""
    if b == 0:
        return b'\x00'
    if b < 0x4c:
        return bytes([b]) + bytes([(7 * b + i) & 0xff for i in range(b)])
    if b == 0x4c:
        return b'\x4c\x01\x07'
    if b == 0x4d:
        return b'\x4d\x02\x00\x01\x00'
    if b == 0x4e:
        return b'\x4e\x01\x00\x00\x00\x11'
    return bytes([b])


def w_enum(ctx, wid, seed, k, lo, hi, stride, nstacks):
    """enumerate scripts of k letters whose index lies in [lo, hi) with the given stride; deterministic order = shrink order"""
    h = harness()
    for idx in range(lo, hi, stride):
        if k == 1:
            script = enum_unit(idx)
        else:
            script = enum_unit(idx // 256) + enum_unit(idx % 256)
        for si in range(nstacks):
            stack = ENUM_STACKS[(si + (idx if k == 2 else 0)) % len(ENUM_STACKS)] if k == 2 else ENUM_STACKS[si]
            for sv in G.SIGVERS:
                for fl in ENUM_FLAGS:
                    case = dict(script=script, stack=stack, flags=fl, sv=sv, tx=None, cls='enum%d' % k)
                    try:
                        check_case(case, ctx, h)
                    except Violation as v:
                        if len(ctx.violations) < 1:
                            ctx.violations.append(dict(campaign='enum%d' % k, why=v.why, case=case_json(case), observed=v.observed, expected=v.expected, refails=3))
                        return


def run(tier, t0):
    W = core.WORKERS
    tasks = []
    if tier == 'quick':
        g, o, r = 2500, 1200, 400
        tasks += [(w_enum, dict(k=1, lo=i * 16, hi=(i + 1) * 16, stride=1, nstacks=len(ENUM_STACKS))) for i in range(16)]
        tasks += [(w_enum, dict(k=2, lo=i * 4096, hi=(i + 1) * 4096, stride=23, nstacks=2)) for i in range(16)]
    else:
        g, o, r = 60000, 30000, 8000
        tasks += [(w_enum, dict(k=1, lo=i * 16, hi=(i + 1) * 16, stride=1, nstacks=len(ENUM_STACKS))) for i in range(16)]
        tasks += [(w_enum, dict(k=2, lo=i * 1024, hi=(i + 1) * 1024, stride=1, nstacks=4)) for i in range(64)]
    tasks += [(w_grammar, dict(examples=g)) for _ in range(W)]
    tasks += [(w_operand, dict(examples=o)) for _ in range(W)]
    tasks += [(w_raw, dict(examples=r)) for _ in range(max(2, W // 4))]
    tasks += [(w_long, dict(examples=max(40, r // 8))) for _ in range(max(2, W // 4))]
    tasks += [(w_deep_if, dict(examples=max(60, r // 8))) for _ in range(2)]
    tasks += [(w_precedence, dict(examples=max(400, r // 2))) for _ in range(2)]
    tasks += [(w_p2sh_shape, dict(examples=max(300, r))) for _ in range(2)]
    tasks += [(w_deep_stack, dict(examples=max(60, r // 8))) for _ in range(2)]
    m = core.parallel(PID, tasks)
    m.exhaustive = False
    extra = dict(enumerated='all 256 one-letter scripts x %d stacks x 3 versions x %d flag sets; two-letter scripts: %s' % (
        len(ENUM_STACKS), len(ENUM_FLAGS), 'all 65536 x 4 stacks x 3 versions x 3 flag sets' if tier == 'thorough' else 'every 23rd x 2 stacks x 3 x 3'))
    return core.finish(PID, tier, m, RULE, t0, min_nontrivial=5000 if tier == 'quick' else 100000, extra=extra,
                       assumptions=['reference interpreter vf/ref/script.py (validated by vf.setup on doc/txs and by bulk agreement)', 'OpenSSL hashes via hashlib',
                                    'TAPSCRIPT sessions are given the execdata configure_tx_txin always provides'])


def replay(rec):
    case = case_from_json(rec['case'])
    ctx = core.Ctx(PID)
    try:
        check_case(case, ctx)
    except Violation as v:
        return False, 'still failing: %s\n  expected %r\n  observed %r' % (v.why, v.expected, v.observed)
    return True, 'ok'
