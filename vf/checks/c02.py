"""C02 - signature opcodes accept exactly the signatures valid for the BIP-defined digest.

Cases come from vf.gen.sigcases (transaction x input x amount x sig version x template x hash type x code separators x annex x
key forms x flags, signed by the independent signer, then optionally corrupted in one signed field / the signature / the key).
Oracle: the reference interpreter with a real checker (own sighash implementations + own secp256k1): per-step trace and error
identity. Observation: the debugger's interpreter (StepScript on an InterpreterEnv with a TransactionSignatureChecker that knows
all spent outputs - harness `direct`), the Instance path (`run`) for a sample, and digest-level comparison (`sighash`)."""
import struct

from hypothesis import strategies as st

from .. import core
from ..core import Violation
from ..harness import Harness, kvline, hxlist
from ..ref import script as R, secp, tx as T, verify as V
from ..ref.script import F
from ..gen import sigcases as SC, scripts as G

PID = 'C02'
RULE = ('cases from the signature-case generator (see vf/gen/sigcases.py); non-trivial = at least one signature reached cryptographic evaluation in the reference '
        '(valid-accepted, invalid-rejected) or the case ends in a signature/key encoding error; distinct = hash of (tx, script, stack, flags, context)')
_H = {}


def harness():
    if 'h' not in _H:
        _H['h'] = Harness('plain')
    return _H['h']


class CountingChecker(V.Checker):
    def __init__(self, *a):
        V.Checker.__init__(self, *a)
        self.crypto = 0
        self.accepted = 0

    def check_ecdsa(self, sig, key, scriptcode, sv):
        if sig and secp.parse_pub(key) is not None and secp.lax_der_parse(sig[:-1]) is not None:
            self.crypto += 1
        r = V.Checker.check_ecdsa(self, sig, key, scriptcode, sv)
        if r:
            self.accepted += 1
        return r

    def check_schnorr(self, sig, key, sv, ed):
        r = V.Checker.check_schnorr(self, sig, key, sv, ed)
        if r is True or r == 'SCHNORR_SIG':
            self.crypto += 1
        if r is True:
            self.accepted += 1
        return r


def spent_str(spent):
    return ';'.join('%d:%s' % (s['value'], s['spk'].hex() or '-') for s in spent)


def annex_hash(annex):
    return R.sha256(T.cs(len(annex)) + annex)


def case_json(c):
    return dict(tx=c['tx'].ser().hex(), idx=c['idx'], amount=c['amount'], spent=[[s['value'], s['spk'].hex()] for s in c['spent']], sv=c['sv'], script=c['script'].hex(),
                stack=[x.hex() for x in c['stack']], flags=c['flags'], flag_names=G.flag_names(c['flags']), annex=c['annex'].hex() if c['annex'] is not None else None,
                leaf=c['leaf'].hex() if c['leaf'] else None, weight=c['weight'], template=c['template'], corruption=c['corruption'])


def case_from_json(j):
    return dict(tx=T.Tx.parse(bytes.fromhex(j['tx'])), idx=j['idx'], amount=j['amount'], spent=[dict(value=v, spk=bytes.fromhex(s)) for v, s in j['spent']], sv=j['sv'],
                script=bytes.fromhex(j['script']), stack=[bytes.fromhex(x) for x in j['stack']], flags=j['flags'], annex=bytes.fromhex(j['annex']) if j['annex'] is not None else None,
                leaf=bytes.fromhex(j['leaf']) if j['leaf'] else None, weight=j['weight'], template=j['template'], corruption=j['corruption'], descr={})


def reference(c):
    ck = CountingChecker(c['tx'], c['idx'], c['amount'], c['spent'])
    ed = dict(annex=c['annex'], leaf=c['leaf'], codesep=0xffffffff, weight=c['weight'])
    trace, oc = R.run(c['script'], c['stack'], c['flags'], c['sv'], checker=ck, execdata=ed)
    return trace, oc, ck


def direct_req(c):
    kw = dict(tx=c['tx'].ser().hex(), idx=c['idx'], spent=spent_str(c['spent']), script=c['script'], stack=c['stack'], flags=c['flags'], sv=c['sv'])
    if c['sv'] >= 2:
        if c['weight'] is not None:
            kw['weight'] = c['weight']
        if c['annex'] is not None:
            kw['annexhash'] = annex_hash(c['annex'])
        if c['leaf'] is not None:
            kw['leafhash'] = c['leaf']
    return kvline('direct', **kw)


SIG_ERRS = ('SIG_DER', 'SIG_HIGH_S', 'SIG_HASHTYPE', 'PUBKEYTYPE', 'WITNESS_PUBKEYTYPE', 'SIG_NULLFAIL', 'SIG_NULLDUMMY', 'SIG_FINDANDDELETE', 'SCHNORR_SIG', 'SCHNORR_SIG_SIZE',
            'SCHNORR_SIG_HASHTYPE', 'TAPSCRIPT_VALIDATION_WEIGHT', 'DISCOURAGE_UPGRADABLE_PUBKEYTYPE')


def check_case(c, ctx):
    if not R.has_valid_ops(c['script'], 0xba):
        return
    trace, oc, ck = reference(c)
    if oc[0] == 'ok':
        exp = (True, '')
    elif oc[0] == 'err':
        exp = (False, R.ERR.get(oc[1], oc[1]))
    else:
        exp = (False, 'exception thrown: ' + oc[1])
    enc_err = oc[0] == 'err' and oc[1] in SIG_ERRS
    nontriv = ck.crypto > 0 or enc_err
    # invalid-rejected: at least one signature went through the cryptographic check and failed it (whatever error the script then ends with:
    # NULLFAIL, SCHNORR_SIG, EVAL_FALSE ...); encoding-error: refused by an encoding / key-type / hash-type rule before or instead of it
    kind = 'valid-accepted' if (ck.accepted and oc[0] == 'ok') else ('invalid-rejected' if ck.crypto > ck.accepted else ('encoding-error' if enc_err else 'other'))
    key = repr(case_json(c))
    ctx.case(key, nontriv, dict(case_json(c), expected=exp[1] or 'ok', crypto_evaluations=ck.crypto, accepted=ck.accepted), 'sv%d:%s:%s' % (c['sv'], c['template'], kind))
    ctx.count('kind:' + kind)
    ctx.count('sv:%d' % c['sv'])
    ctx.count('template:' + c['template'])
    ctx.count('corruption:' + c['corruption'])
    if c['sv'] == R.TAPSCRIPT and len(c['script']) > 250 and b'\x61' * 250 + b'' in c['script']:
        ctx.count('tapscript-codesep-position>=253' + ('(>=65533)' if len(c['script']) > 65000 else ''))
    if oc[0] == 'err':
        ctx.count('error:' + oc[1])
    if c['corruption'] == 'none' and c['descr'].get('expect_valid'):
        pass
    h = harness()
    g = h.req(direct_req(c))
    if g.get('timeout'):
        ctx.inconclusive += 1
        return
    if 'crash' in g or 'exit' in g:
        raise Violation(c, 'interpreter died on a signature case: %r' % g, observed=g)
    if 'refused' in g:
        fid = 'C02-checksigadd-refused'
        raise Violation(c, 'case refused: %r' % g, observed=g)
    et = [list(x) for x in trace]
    gt = g['trace']
    n = min(len(et), len(gt))
    for i in range(n):
        if et[i] != gt[i]:
            raise Violation(c, 'state after operation %d differs (template %s, corruption %s)' % (i, c['template'], c['corruption']), observed=gt[i], expected=et[i])
    if len(et) != len(gt) or bool(g['ok']) != exp[0] or (g['err'] != exp[1]):
        why = 'signature opcode outcome differs: reference %r after %d ops, debugger %r after %d ops (sv %d, template %s, corruption %s)' % (
            exp[1] or 'ok', len(et), g['err'] or 'ok', len(gt), c['sv'], c['template'], c['corruption'])
        raise Violation(c, why, observed=[g['ok'], g['err'], len(gt)], expected=[exp[0], exp[1], len(et)])
    # tapscript: remaining validation weight equals the reference's
    if c['sv'] == R.TAPSCRIPT and exp[0] and c['weight'] is not None:
        if g['final'].get('w') != R.run.last_state.execdata['weight']:
            raise Violation(c, 'remaining validation weight differs', observed=g['final'].get('w'), expected=R.run.last_state.execdata['weight'])


def check_instance_path(c, ctx):
    """the same case through Instance (what the CLI builds): BASE / WITNESS_V0 with --tx context and an input index"""
    if c['sv'] not in (R.BASE, R.WITNESS_V0) or not R.has_valid_ops(c['script']):
        return
    trace, oc, ck = reference(c)
    amounts = ','.join(T_amount(s['value']) for s in c['spent'])
    g = harness().req(kvline('run', script=c['script'], stack=c['stack'], flags=c['flags'], sv=c['sv'], tx=amounts + ':' + c['tx'].ser().hex(), idx=c['idx'], mode='step'))
    if g.get('timeout') or 'refused' in g:
        return
    if 'crash' in g or 'exit' in g:
        raise Violation(c, 'Instance path died: %r' % g, observed=g)
    ctx.case('inst' + repr(case_json(c)), ck.crypto > 0, None, 'instance-path')
    exp_ok = oc[0] == 'ok'
    exp_err = '' if exp_ok else (R.ERR.get(oc[1], oc[1]) if oc[0] == 'err' else 'exception thrown: ' + oc[1])
    if [list(x) for x in trace] != g['trace'] or bool(g['ok']) != exp_ok or g['err'] != exp_err:
        raise Violation(c, 'Instance path (tx context + input index + amount list) differs from the reference: %r vs %r' % (exp_err or 'ok', g['err'] or 'ok'), observed=[g['ok'], g['err'], len(g['trace'])], expected=[exp_ok, exp_err, len(trace)])


def T_amount(v):
    return '%d.%08d' % (v // 100000000, v % 100000000)


def check_digest(c, ctx):
    """digest-level: SignatureHash / SignatureHashSchnorr against the reference for the case's context and a generated hash type"""
    h = harness()
    tx, idx = c['tx'], c['idx']
    for ht in (1, 2, 3, 0x81, 0x82, 0x83, c['flags'] & 0xff, (c['amount'] * 7 + idx) & 0xff):
        if c['sv'] in (R.BASE, R.WITNESS_V0):
            sc = c['script']
            want = T.sighash_v0(tx, idx, sc, c['amount'], ht) if c['sv'] == R.WITNESS_V0 else T.sighash_legacy(tx, idx, sc, ht)
            g = h.req(kvline('sighash', tx=tx.ser().hex(), idx=idx, ht=ht, sv=c['sv'], amount=c['amount'], scriptcode=sc))
        else:
            if not (ht <= 3 or 0x81 <= ht <= 0x83):
                continue
            csp = 0xffffffff if not c['flags'] & 1 else (c['amount'] % 5)
            want = T.sighash_taproot(tx, idx, c['spent'], ht, c['annex'], c['leaf'] if c['sv'] == R.TAPSCRIPT else None, csp)
            kw = dict(tx=tx.ser().hex(), idx=idx, ht=ht, sv=c['sv'], spent=spent_str(c['spent']), csp=csp)
            if c['annex'] is not None:
                kw['annexhash'] = annex_hash(c['annex'])
            if c['sv'] == R.TAPSCRIPT:
                kw['leafhash'] = c['leaf']
            g = h.req(kvline('sighash', **kw))
            if want is None:
                if g.get('ok'):
                    raise Violation(c, 'SignatureHashSchnorr produced a digest where BIP341 defines none (hash type %#x, SINGLE without matching output)' % ht, observed=g)
                continue
        ctx.case('dig%d' % ht + repr(case_json(c)), True, None, 'digest:sv%d' % c['sv'])
        if not g.get('ok') or g.get('hash') != want.hex():
            raise Violation(c, 'digest for hash type %#x differs from the %s definition' % (ht, {0: 'legacy', 1: 'BIP143', 2: 'BIP341', 3: 'BIP342'}[c['sv']]), observed=g, expected=want.hex())


def w_cases(ctx, wid, seed, examples):
    core.hyp_campaign(ctx, 'sigcases', SC.sig_case(), check_case, examples, seed, case_json)


def w_instance(ctx, wid, seed, examples):
    core.hyp_campaign(ctx, 'instance-path', SC.sig_case(), check_instance_path, examples, seed, case_json)


def w_digest(ctx, wid, seed, examples):
    core.hyp_campaign(ctx, 'digests', SC.sig_case(), check_digest, examples, seed, case_json)


def w_explicit_cli(ctx, wid, seed, rounds):
    """the real binary with an EXPLICIT script and stack next to a transaction context (`echo <script> | btcdeb --tx=<amounts>:<tx> [--txin=..] [--select=n] <sig> <key>`):
    the signature is checked for the selected input, with that input's amount and with the digest rules of that input (legacy for an input without
    witness - whatever the other inputs carry -, BIP143 for one with a witness)"""
    import random
    from ..gen import spends as S
    from ..ref import tx as RT
    from .. import cli
    rnd = random.Random(seed)
    exe = cli.binpath('btcdeb')
    for _ in range(rounds):
        nin = rnd.choice([2, 3])
        k = rnd.randrange(nin)
        segwit = rnd.random() < 0.5
        key = S.Key(rnd)
        amounts = [rnd.randrange(1000, 10 ** 9) for _ in range(nin)]
        t = RT.Tx()
        t.version = 2
        t.locktime = 0
        t.vin = [dict(txid=bytes(rnd.getrandbits(8) for _ in range(32)), n=rnd.randrange(3), script=b'', seq=0xffffffff, wit=[]) for _ in range(nin)]
        t.vout = [dict(value=500, spk=b'\x00\x14' + bytes(20))]
        # at least one OTHER input carries a witness in every case: the legacy input of a mixed transaction is the interesting one
        other = (k + 1) % nin
        t.vin[other]['wit'] = [bytes([1]) * 71, bytes([2]) * 33]
        script = b'\x76\xa9\x14' + S.h160(key.pub) + b'\x88\xac'
        ht = rnd.choice([1, 1, 2, 3, 0x81])
        if segwit:
            t.vin[k]['wit'] = [b'\x00']          # any witness: the input is a segwit input
            sig = S.ecdsa(key, RT.sighash_v0(t, k, script, amounts[k], ht), ht)
        else:
            sig = S.ecdsa(key, RT.sighash_legacy(t, k, script, ht), ht)
        good = rnd.random() < 0.7
        amt = list(amounts)
        if not good:
            if segwit and rnd.random() < 0.5:
                amt[k] += 1                     # wrong amount for the selected input
            else:
                sig = sig[:10] + bytes([sig[10] ^ 1]) + sig[11:]
        argv = ['--tx=' + ','.join(T_amount(a) for a in amt) + ':' + t.ser().hex(), '--select=%d' % k, '0x' + sig.hex(), '0x' + key.pub.hex()]
        r = cli.run(exe, argv, stdin=b'0x' + script.hex().encode() + b'\n')
        case = dict(kind='explicit-cli', segwit_input=segwit, inputs=nin, selected=k, valid=good, argv=argv)
        ctx.case(repr(argv), True, case, 'explicit-cli:' + ('v0' if segwit else 'legacy-in-mixed-tx'))
        if r.timed_out:
            ctx.inconclusive += 1
            continue
        ok = r.rc == 0 and r.out.strip().splitlines()[-1:] == [b'01']
        if r.abnormal or ok != good:
            ctx.violations.append(dict(campaign='explicit-cli', why='explicit script against input %d of a %d-input transaction (%s input, another input has a witness): the %s signature is %s (rc=%s, err=%r)' % (
                k, nin, 'segwit' if segwit else 'legacy', 'valid' if good else 'invalid', 'accepted' if ok else 'rejected', r.rc, r.err[-160:]), case=case, refails=3))
            return


def run(tier, t0):
    W = core.WORKERS
    n = 2500 if tier == 'quick' else 40000
    tasks = [(w_cases, dict(examples=n)) for _ in range(W)] + [(w_instance, dict(examples=n // 4)) for _ in range(max(2, W // 4))] + [(w_digest, dict(examples=n // 4)) for _ in range(max(2, W // 4))]
    tasks += [(w_explicit_cli, dict(rounds=60 if tier == 'quick' else 2000)) for _ in range(2)]
    m = core.parallel(PID, tasks)
    tot = sum(v for k, v in m.counters.items() if k.startswith('kind:')) or 1
    shares = {k: round(v / tot, 3) for k, v in m.counters.items() if k.startswith('kind:')}
    if tier == 'thorough':
        for k in ('kind:valid-accepted', 'kind:invalid-rejected', 'kind:encoding-error'):
            if shares.get(k, 0) < 0.10:
                m.errors.append('generator imbalance: %s is only %.1f%% of the cases' % (k, 100 * shares.get(k, 0)))
    return core.finish(PID, tier, m, RULE, t0, min_nontrivial=1500 if tier == 'quick' else 100000, extra=dict(kind_shares=shares),
                       assumptions=['independent signer and checker (vf/ref/secp.py, vf/ref/tx.py sighashes, vf/ref/script.py) validated on the six real-chain pairs and BIP340 vector 0',
                                    'CPubKey::Verify\'s lax DER parser is re-implemented from its documented behaviour for the flags-off case',
                                    'the debugger interpreter is driven with a TransactionSignatureChecker that knows every spent output (what a complete taproot context requires)'])


def replay(rec):
    if rec.get('campaign') == 'explicit-cli':
        from .. import cli
        c = rec['case']
        script = b'0x' + bytes.fromhex('76a914').hex().encode()
        # the script is the P2PKH template of the key given as last argument
        import hashlib
        pub = bytes.fromhex(c['argv'][-1][2:])
        h = hashlib.new('ripemd160', hashlib.sha256(pub).digest()).digest() if 'ripemd160' in hashlib.algorithms_available else R.ripemd(R.sha256(pub))
        r = cli.run(cli.binpath('btcdeb'), c['argv'], stdin=b'0x76a914' + h.hex().encode() + b'88ac\n')
        ok = r.rc == 0 and r.out.strip().splitlines()[-1:] == [b'01']
        return ok == c['valid'], 'valid=%r accepted=%r rc=%s err=%r' % (c['valid'], ok, r.rc, r.err[-200:])
    c = case_from_json(rec['case'])
    ctx = core.Ctx(PID)
    try:
        if rec.get('campaign') == 'instance-path':
            check_instance_path(c, ctx)
        elif rec.get('campaign') == 'digests':
            check_digest(c, ctx)
        else:
            check_case(c, ctx)
    except Violation as v:
        return False, 'still failing: %s\n  expected %r\n  observed %r' % (v.why, v.expected, v.observed)
    return True, 'ok'
