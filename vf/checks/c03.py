"""C03 - a --tx/--txin session reproduces consensus validation of that input.

Generator: funding/spending pairs for every supported output type, signed by the independent signer (vf.gen.spends), with decoy
inputs / a second input spending the same funding tx (selection), one optional corruption, flag modifications; plus the six
real-chain pairs in doc/txs. Oracle: vf.ref.verify.verify_script (VerifyScript under the same flags). Tree verdict: set-up
succeeds, the session runs to the end without error and the final stack is what validation requires. Also: input selection,
amount and locking script taken from the referenced output, refusal of mismatching witness programs."""
import os

from hypothesis import strategies as st

from .. import build, cli, core
from ..core import Violation
from ..harness import Harness, kvline
from ..ref import script as R, secp, tx as T, verify as V
from ..ref.script import F
from ..gen import spends as S

PID = 'C03'
RULE = ('(funding tx, spending tx, selection, flags, corruption) for output types %s; non-trivial = the session reaches execution of the final script phase or is a deliberate refusal case '
        '(hash mismatch, bad selection); distinct = hash of both transactions + selection + flags') % ', '.join(S.TYPES)
STD = V.STANDARD
_H = {}


def harness():
    if 'h' not in _H:
        _H['h'] = Harness('plain')
    return _H['h']


ACTIVATION = ['P2SH', 'WITNESS', 'TAPROOT']
OTHER_REMOVABLE = ['CLEANSTACK', 'NULLDUMMY', 'NULLFAIL', 'LOW_S', 'STRICTENC', 'DERSIG', 'MINIMALIF', 'MINIMALDATA', 'WITNESS_PUBKEYTYPE', 'CONST_SCRIPTCODE', 'DISCOURAGE_UPGRADABLE_NOPS',
                   'DISCOURAGE_UPGRADABLE_WITNESS_PROGRAM', 'DISCOURAGE_UPGRADABLE_TAPROOT_VERSION', 'DISCOURAGE_OP_SUCCESS', 'DISCOURAGE_UPGRADABLE_PUBKEYTYPE', 'CHECKLOCKTIMEVERIFY', 'CHECKSEQUENCEVERIFY']


def consistent(flags):
    """Core asserts CLEANSTACK => WITNESS => P2SH; TAPROOT needs WITNESS"""
    if flags & F['CLEANSTACK'] and not (flags & F['WITNESS'] and flags & F['P2SH']):
        return False
    if flags & F['WITNESS'] and not flags & F['P2SH']:
        return False
    if flags & F['TAPROOT'] and not flags & F['WITNESS']:
        return False
    return True


@st.composite
def spend_cases(draw):
    rnd = draw(st.randoms(use_true_random=False))
    typ = draw(st.sampled_from(S.TYPES))
    ninputs = 1 if typ.startswith('p2tr') and draw(st.integers(0, 3)) else None
    decoy = draw(st.integers(0, 4)) == 0
    if typ.startswith('p2tr') and draw(st.integers(0, 5)) == 0:
        # two inputs that BOTH spend outputs of the funding transaction: every spent output is known, the taproot digests can be computed
        ninputs, decoy = 2, True
    c = S.build(rnd, typ, ninputs=ninputs, same_fund_decoy=decoy, allow_invalid=True)
    corr = S.corrupt(c, draw(st.sampled_from(S.CORR)), rnd)
    # flag modifications: consistent sets only; the three activation flags form their own class
    flags = STD
    fclass = 'standard'
    k = draw(st.integers(0, 9))
    if k >= 6:
        for n in draw(st.lists(st.sampled_from(OTHER_REMOVABLE), min_size=1, max_size=4, unique=True)):
            flags &= ~F[n]
        fclass = 'policy-removed'
    if k == 9:
        n = draw(st.sampled_from(ACTIVATION))
        flags &= ~F[n]
        if n == 'P2SH':
            flags &= ~(F['WITNESS'] | F['CLEANSTACK'] | F['TAPROOT'])
        if n == 'WITNESS':
            flags &= ~(F['CLEANSTACK'] | F['TAPROOT'])
        fclass = 'activation-removed'
    if c['meta'].get('flag_hint') and draw(st.booleans()):
        # the script was built around one flag: half of these cases run with that flag removed
        flags &= ~F[c['meta']['flag_hint']]
        if fclass == 'standard':
            fclass = 'policy-removed'
    if not consistent(flags):
        flags = STD
        fclass = 'standard'
    if draw(st.integers(0, 7)) == 0:
        flags |= F['SIGPUSHONLY']         # not part of the standard set; only ever restricts (scriptSigs with operations)
        fclass += '+SIGPUSHONLY'
    sel = 'auto'
    if draw(st.integers(0, 5)) == 0:
        sel = draw(st.sampled_from(['explicit-right', 'explicit-right', 'explicit-wrong', 'explicit-decoy', 'out-of-range']))
    # amounts written in front of the spending transaction (`--tx=<amount>[,<amount>...]:<hex>`): with --txin the amount of the debugged input is the
    # value of the output it spends, whatever the prefix says
    amt = None
    if draw(st.integers(0, 4)) == 0:
        n_in = len(c['tx'].vin)
        amt = ','.join(draw(st.sampled_from(['0.5', '0.00000001', '0', '1', '20999999.9769', '0.12345678'])) for _ in range(draw(st.sampled_from([1, n_in, n_in]))))
    return dict(c=c, corr=corr, flags=flags, fclass=fclass, sel=sel, amt=amt)


def case_json(case):
    c = case['c']
    return dict(tx=c['tx'].ser().hex(), txin=c['fund'].ser().hex(), type=c['type'], corruption=case['corr'], flags=case['flags'], fclass=case['fclass'], sel=case['sel'], idx=c['idx'],
                decoy=c.get('decoy'), spent_all=[[s['value'], s['spk'].hex()] for s in c['spent_all']], leafkind=c['meta'].get('leafkind'), amount_prefix=case.get('amt'))


def case_from_json(j):
    tx = T.Tx.parse(bytes.fromhex(j['tx']))
    fund = T.Tx.parse(bytes.fromhex(j['txin']))
    c = dict(tx=tx, fund=fund, idx=j['idx'], type=j['type'], decoy=j.get('decoy'), spent_all=[dict(value=v, spk=bytes.fromhex(s)) for v, s in j['spent_all']], meta=dict(leafkind=j.get('leafkind')))
    return dict(c=c, corr=j['corruption'], flags=j['flags'], fclass=j['fclass'], sel=j['sel'], amt=j.get('amount_prefix'))


def matching_inputs(tx, fund):
    fid = fund.txid()
    return [i for i, v in enumerate(tx.vin) if v['txid'] == fid]


def reference_verdict(tx, fund, i, flags, spent_all):
    vin = tx.vin[i]
    if vin['n'] >= len(fund.vout):
        return 'OUT_OF_RANGE'
    out = fund.vout[vin['n']]
    spent = list(spent_all)
    spent[i] = out
    ck = V.Checker(tx, i, out['value'], spent)
    return V.verify_script(vin['script'], out['spk'], vin['wit'], flags, ck)


def is_witness_out(spk, scriptsig):
    if V.witness_program(spk):
        return True
    if V.is_p2sh(spk):
        ops = R.decode(scriptsig)
        if ops and ops[-1] is not None and ops[-1][1] is not None and V.witness_program(ops[-1][1]):
            return True
    return False


def tree_verdict(r, flags, witness_out):
    """None = valid, else a reason"""
    if 'refused' in r:
        return 'refused:' + r['refused']
    if not r['ok']:
        return 'error:' + r['err']
    st_ = r['final']['st']
    if not st_:
        return 'final-stack-empty'
    if not R.cast_bool(bytes.fromhex(st_[-1])):
        return 'final-top-false'
    if (witness_out or flags & F['CLEANSTACK']) and len(st_) != 1:
        return 'final-stack-not-clean(%d)' % len(st_)
    return None


def check_spend(case, ctx):
    c = case['c']
    tx, fund, flags = c['tx'], c['fund'], case['flags']
    match = matching_inputs(tx, fund)
    sel = case['sel']
    select = -1
    exp_idx = match[0] if match else None
    if sel == 'explicit-right':
        select = c['idx']
        exp_idx = c['idx']
    elif sel == 'explicit-decoy' and c.get('decoy') is not None:
        select = c['decoy']
        exp_idx = c['decoy']
    elif sel == 'explicit-wrong':
        others = [i for i in range(len(tx.vin)) if i not in match]
        if others:
            select = others[0]
            exp_idx = None
    elif sel == 'out-of-range':
        select = len(tx.vin) + (case['flags'] % 3)
        exp_idx = None
    typ = c['type']
    key = repr((tx.ser(), fund.ser(), select, flags))
    txtext = tx.ser().hex()
    if case.get('amt'):
        txtext = case['amt'] + ':' + txtext
        ctx.count('amount-prefix-on-tx')
    r = harness().req(kvline('spend', tx=txtext, txin=fund.ser().hex(), select=select, flags=flags, mode='step', trace=0))
    if r.get('timeout'):
        ctx.inconclusive += 1
        return
    if 'crash' in r or 'exit' in r:
        raise Violation(case, 'spend session died: %r' % r, observed=r)
    cls = '%s:%s:%s' % (typ, case['corr'], case['fclass'])
    if exp_idx is None:
        # selection that does not reference the funding transaction / out of range must be refused
        ctx.case(key, True, dict(case_json(case), expected='selection refused'), 'selection-refused')
        if r.get('refused') != 'txin':
            raise Violation(case, 'selection %d does not reference the funding transaction (inputs spending it: %s) but was not refused' % (select, match), observed=str(r)[:300])
        return
    if r.get('refused') == 'txin' or r.get('refused') == 'tx':
        raise Violation(case, 'transaction pair refused although input %d spends the funding transaction' % exp_idx, observed=r)
    vin = tx.vin[exp_idx]
    out = fund.vout[vin['n']]
    ref_err = reference_verdict(tx, fund, exp_idx, flags, c['spent_all'])
    # the implicit clean-stack rule of witness scripts applies where a witness script is executed, i.e. when the input carries a witness
    wout = is_witness_out(out['spk'], vin['script']) and bool(vin['wit'])
    tv = tree_verdict(r, flags, wout)
    reached = 'refused' not in r and r.get('steps', 0) > 0
    ctx.case(key, reached or case['corr'] in ('proghash', 'witscript_bit', 'wrong_key'), dict(case_json(case), reference=ref_err or 'valid', debugger=tv or 'valid'), cls)
    ctx.count('type:' + typ)
    ctx.count('verdict:' + ('valid' if ref_err is None else 'invalid'))
    if typ.startswith('p2tr') and len(tx.vin) >= 2 and all(v['txid'] == fund.txid() for v in tx.vin):
        ctx.count('taproot-multi-input-all-from-the-funding-transaction:' + ('valid' if ref_err is None else 'invalid'))
    if c['meta'].get('leafkind'):
        ctx.count('leafkind:%s%s' % (c['meta']['leafkind'], ':' + (ref_err or 'valid') if c['meta']['leafkind'] == 'sigreuse' and case['corr'] == 'none' else ''))
    ctx.count('cell:%s/%s' % (typ, 'valid' if case['corr'] == 'none' else case['corr']))
    if 'refused' not in r:
        # selection, amount and locking script come from the referenced output
        if r['idx'] != exp_idx or r['vout'] != vin['n']:
            raise Violation(case, 'session debugs input %d (vout %d); the input spending the funding transaction is %d (vout %d)' % (r['idx'], r['vout'], exp_idx, vin['n']), observed=[r['idx'], r['vout']], expected=[exp_idx, vin['n']])
        if r['amount'] != out['value']:
            raise Violation(case, 'amount %d is not the value of the referenced output (%d)' % (r['amount'], out['value']), observed=r['amount'], expected=out['value'])
    # hash mismatch of a revealed witness script / key must be *refused* at set-up
    if case['corr'] in ('proghash', 'witscript_bit', 'wrong_key') and typ in ('p2wpkh', 'p2wsh', 'p2wsh-script', 'p2wsh-codesep', 'p2sh-p2wpkh', 'p2sh-p2wsh') and ref_err in ('WITNESS_PROGRAM_MISMATCH',) and flags & F['WITNESS']:
        if 'refused' not in r and r.get('steps', 0) > 0 and r['ok']:
            raise Violation(case, 'revealed script/key does not hash to the committed program but the session was set up and ran', observed=tv)
    ref_valid = ref_err is None
    tree_valid = tv is None
    if ref_valid == tree_valid:
        return
    # the property is about the supported output types. A witness program of a future kind (version 2..16, or version 1 with a program that is
    # not 32 bytes) - reachable here only through the scriptPubKey-shape corruption - is none of them: validation lets anyone spend it when the
    # DISCOURAGE flag is off, the debugger declines it with 'declared version=... not supported' / 'expected 22 or 34 byte script'. Declining at
    # set-up is accepted; a session that is set up and runs is still compared.
    wp = V.witness_program(out['spk'])
    wrapped = False
    if wp is None and V.is_p2sh(out['spk']):
        ops = R.decode(vin['script'])
        if ops and ops[-1] is not None and ops[-1][1] is not None:
            wp = V.witness_program(ops[-1][1])
            wrapped = True
    # (a P2SH-wrapped version 1 program of any length is such an unknown program too: BIP341 applies to native outputs only)
    if wp is not None and (wp[0] >= 2 or (wp[0] == 1 and (len(wp[1]) != 32 or wrapped))) and tv and tv.startswith('refused:configure'):
        ctx.count('unsupported-witness-program-declined')
        return
    # ---- disagreement: known classes (narrow signatures), else violation
    sig = classify(case, c, r, ref_err, tv, exp_idx)
    if sig and core.kf_active(sig):
        ctx.known_hit(sig, case_json(case))
        return
    raise Violation(case, 'verdicts differ for %s (corruption %s, flags %s): validation says %s, the debugger session says %s' % (
        typ, case['corr'], case['fclass'], ref_err or 'valid', tv or 'valid'), observed=tv or 'valid', expected=ref_err or 'valid')


def classify(case, c, r, ref_err, tv, idx):
    typ = c['type']
    tx = c['tx']
    flags = case['flags']
    fid = c['fund'].txid()
    all_from_fund = all(v['txid'] == fid and v['n'] < len(c['fund'].vout) for v in tx.vin)
    if typ.startswith('p2tr') and len(tx.vin) >= 2 and not all_from_fund and ref_err is None and tv and tv.startswith('error:'):
        # (when every input spends an output of the funding transaction all spent outputs are known and the spend must validate)
        return 'C03-multi-input-taproot'
    # only where the session layout is derived from the shape of the transactions: outputs that are (or P2SH-wrap) a witness program.
    # A plain legacy P2SH spend honours a removed P2SH flag on the unchanged tree and stays fully checked.
    out_ = c['fund'].vout[tx.vin[idx]['n']]
    if case['fclass'].startswith('activation-removed') and ref_err is None and tv is not None and (is_witness_out(out_['spk'], tx.vin[idx]['script']) or tx.vin[idx]['wit']):
        return 'C03-activation-flags'
    if c['meta'].get('leafkind') == 'unknown-leaf-version' and ref_err is None and tv and tv.startswith('refused'):
        return 'C03-unknown-leaf-version'
    return None


def w_spends(ctx, wid, seed, examples):
    core.hyp_campaign(ctx, 'spends', spend_cases(), check_spend, examples, seed, case_json)


DOC_PAIRS = ['p2pkh', 'p2sh-p2wpkh', 'p2sh-multisig-2-of-2', 'p2sh-multisig-invalid-order', 'p2tr', 'p2ts']


def w_doc(ctx, wid, seed):
    """the six real-chain pairs, through the harness and through the real btcdeb binary"""
    d = os.path.join(build.REPO, 'doc', 'txs')
    for name in DOC_PAIRS:
        txh = open(os.path.join(d, name + '-tx')).read().strip()
        inh = open(os.path.join(d, name + '-in')).read().strip()
        tx = T.Tx.parse(bytes.fromhex(txh))
        fund = T.Tx.parse(bytes.fromhex(inh))
        match = matching_inputs(tx, fund)
        i = match[0]
        out = fund.vout[tx.vin[i]['n']]
        if len(tx.vin) > 1 and V.witness_program(out['spk']) and V.witness_program(out['spk'])[0] == 1:
            continue
        ref_err = V.verify_script(tx.vin[i]['script'], out['spk'], tx.vin[i]['wit'], STD, V.Checker(tx, i, out['value'], [out] if len(tx.vin) == 1 else None))
        r = harness().req(kvline('spend', tx=txh, txin=inh, flags=STD, mode='step', trace=0))
        tv = tree_verdict(r, STD, is_witness_out(out['spk'], tx.vin[i]['script']))
        ctx.case('doc:' + name, True, dict(pair=name, reference=ref_err or 'valid', debugger=tv or 'valid'), 'doc-txs')
        if (ref_err is None) != (tv is None):
            ctx.violations.append(dict(campaign='doc-txs', why='real-chain pair %s: validation says %s, session says %s' % (name, ref_err or 'valid', tv or 'valid'), case=dict(pair=name), refails=3))
            return
        # the real binary, non-interactive
        rr = cli.run(cli.binpath('btcdeb'), ['--tx=' + txh, '--txin=' + inh], stdin=b'\n')
        if rr.timed_out:
            ctx.inconclusive += 1
            continue
        cli_valid = rr.rc == 0 and not rr.abnormal and rr.out.strip().splitlines()[-1:] == [b'01']
        ctx.case('doc-cli:' + name, True, dict(pair=name, rc=rr.rc, stdout=rr.out.decode(errors='replace')[-40:]), 'doc-txs-cli')
        if rr.abnormal or cli_valid != (ref_err is None):
            ctx.violations.append(dict(campaign='doc-txs-cli', why='real-chain pair %s through the btcdeb binary: validation says %s, binary rc=%s out=%r abnormal=%s' % (name, ref_err or 'valid', rr.rc, rr.out[-40:], rr.abnormal), case=dict(pair=name), refails=3))
            return


def w_select_cli(ctx, wid, seed):
    """--select through the real binary: the index of the referencing input selects it; anything that is not the index of an input referencing the funding
    transaction (another input, an index beyond the inputs, a number with trailing junk, a negative or overflowing number) is refused"""
    import random
    rnd = random.Random(seed)
    exe = cli.binpath('btcdeb')
    for typ in ('p2pkh', 'p2wpkh', 'p2sh-multisig'):
        c = S.build(rnd, typ, ninputs=3)
        txh, inh, idx = c['tx'].ser().hex(), c['fund'].ser().hex(), c['idx']
        other = (idx + 1) % 3
        for val, ok in ((str(idx), True), (str(other), False), ('3', False), ('99', False), ('%dx' % idx, False), ('-1', False), ('-2', False), (str(2 ** 32 + idx), False), ('abc', False), ('', False), ('0x%d' % idx, False)):
            r = cli.run(exe, ['--tx=' + txh, '--txin=' + inh, '--select=' + val], stdin=b'\n')
            ctx.case('select-cli:%s:%s' % (typ, val), True, dict(type=typ, select=val, referencing_input=idx), 'select-cli')
            if r.timed_out:
                ctx.inconclusive += 1
                continue
            good = r.rc == 0 and r.out.strip().splitlines()[-1:] == [b'01']
            if ok and not good:
                ctx.violations.append(dict(campaign='select-cli', why='--select=%s names the input that spends the funding transaction (%s spend) but the session does not end with 01: rc=%s err=%r' % (val, typ, r.rc, r.err[-200:]), case=dict(type=typ, select=val), refails=3))
                return
            if not ok and (r.rc == 0 or r.abnormal):
                ctx.violations.append(dict(campaign='select-cli', why='--select=%s is not the index of an input that references the funding transaction (that is input %d) but was not refused: rc=%s out=%r' % (val, idx, r.rc, r.out[-60:]),
                                           case=dict(type=typ, select=val), refails=3))
                return


def run(tier, t0):
    W = core.WORKERS
    n = 1500 if tier == 'quick' else 20000
    m = core.parallel(PID, [(w_doc, dict()), (w_select_cli, dict())] + [(w_spends, dict(examples=n)) for _ in range(W)])
    cells = [k for k in m.counters if k.startswith('cell:')]
    if tier == 'thorough':
        # every output type must have been exercised valid and under every corruption that applies to it at least once
        have = set(k[5:] for k in cells)
        missing = [t + '/valid' for t in S.TYPES if t + '/valid' not in have]
        if missing:
            m.errors.append('thorough tier left output-type cells empty: %r' % missing)
    return core.finish(PID, tier, m, RULE, t0, min_nontrivial=2000 if tier == 'quick' else 80000, extra=dict(type_corruption_cells=len(cells)),
                       assumptions=['reference VerifyScript (vf/ref/verify.py) validated on the six real-chain pairs', 'flag modifications range over consistent sets only (CLEANSTACK => WITNESS => P2SH, TAPROOT => WITNESS)',
                                    'tree verdict = set-up ok, no error to the end, final stack non-empty with true top, exactly one element for witness outputs and whenever CLEANSTACK is set'])


def replay(rec):
    if 'pair' in rec['case']:
        ctx = core.Ctx(PID)
        w_doc(ctx, 0, 0)
        return (not ctx.violations), str(ctx.violations[:1])
    case = case_from_json(rec['case'])
    try:
        check_spend(case, core.Ctx(PID))
    except Violation as v:
        return False, 'still failing: %s\n  expected %r\n  observed %r' % (v.why, v.expected, v.observed)
    return True, 'ok'
