"""C04 - rewind exactly undoes steps.

Model-based, the tree against itself: for a session and a command history over {step, rewind} keep net = accepted steps -
accepted rewinds. After every command the full state dump of the live session must equal the dump of a fresh session
advanced by `net` steps; at the end, continuing both to completion must give the same trace and outcome; a refused rewind
must leave the dump unchanged. Histories are cut at the first failing step (outside the property's domain)."""
from hypothesis import strategies as st

from .. import core
from ..core import Violation
from ..harness import Harness, kvline
from ..ref import script as R
from ..ref.script import F
from ..gen import scripts as G, sessions as SS

PID = 'C04'
RULE = ('sessions (plain scripts with IF nesting / alt stack / OP_CODESEPARATOR + mocked signature checks / >190 counted ops, multi-script legacy sessions with scriptPubKey and P2SH phases, '
        'real tapscript spends with commitment phase and signature budget) x histories over {step, rewind} (complete history trees to a bound for short scripts, random walks otherwise); '
        'non-trivial = the history contains an accepted rewind over an operation that changed something other than the main stack (condition stack, alt stack, code separator, budget, op count, script) '
        'and execution continued afterwards; distinct = hash of (session, history)')
FIELDS = ['st', 'alt', 'vf', 'pc', 'ops', 'seq', 'cs', 'opos', 'csp', 'w', 'leaf', 'slen', 'succ', 'p2sh', 'tce', 'done']
_H = {}


def harness():
    if 'h' not in _H:
        _H['h'] = Harness('plain')
    return _H['h']


def proj(d):
    return {k: d.get(k) for k in FIELDS}


def small(d):
    return [d['st'], d['alt'], d['vf']]


def diff(a, b):
    return [k for k in FIELDS if a.get(k) != b.get(k)]


def session_req(sess, cmds, finish):
    kw = dict(sess['kw'])
    kw['cmds'] = ','.join(cmds)
    kw['finish'] = 1 if finish else 0
    return kvline('session', **kw)


def case_json(case):
    sess, hist = case
    kw = {k: (v.hex() if isinstance(v, (bytes, bytearray)) else ([x.hex() for x in v] if isinstance(v, list) else v)) for k, v in sess['kw'].items()}
    return dict(session=kw, kind=sess['kind'], history=''.join(hist))


def case_from_json(j):
    kw = {}
    for k, v in j['session'].items():
        if k in ('script', 'succ'):
            kw[k] = bytes.fromhex(v)
        elif k == 'stack':
            kw[k] = [bytes.fromhex(x) for x in v]
        else:
            kw[k] = v
    return (dict(kw=kw, kind=j['kind']), list(j['history']))


def check_history(case, ctx, h=None):
    sess, hist = case
    h = h or harness()
    live = h.req(session_req(sess, hist, True))
    if 'timeout' in live:
        ctx.inconclusive += 1
        return
    if 'crash' in live or 'exit' in live:
        raise Violation(case, 'harness died during a step/rewind history: %r' % live, observed=live)
    if 'refused' in live:
        ctx.count('session-refused')
        return
    # cut the history at the first failing step
    log = live['log']
    net = 0
    nets = []
    usable = len(log)
    for i, e in enumerate(log):
        if e['c'] == 's' and not e['acc'] and not (log[i - 1]['d'] if i else live['init'])['done']:
            usable = i
            break
        if e['acc']:
            net += 1 if e['c'] == 's' else -1
        nets.append(net)
    if usable < len(log):
        ctx.count('history-cut-at-failing-step')
        if usable == 0:
            return
        hist = hist[:usable]
        live = h.req(session_req(sess, hist, True))
        log = live['log']
    if not log:
        return
    maxnet = max([0] + nets[:usable])
    fresh = h.req(session_req(sess, ['s'] * maxnet, True))
    if 'log' not in fresh:
        raise Violation(case, 'fresh session could not be advanced: %r' % fresh, observed=fresh)
    fdumps = [fresh['init']] + [e['d'] for e in fresh['log']]
    if any(not e['acc'] for e in fresh['log']):
        # a step that succeeded in the live session fails in the fresh one: that is already a disagreement
        raise Violation(case, 'a step accepted in the history fails in a fresh session advanced by the same net count', observed=[e['err'] for e in fresh['log'] if not e['acc']][:1])
    prev = live['init']
    touched = set()
    rewound_over = False
    for i, e in enumerate(log):
        d = e['d']
        if e['c'] == 'r':
            # which rewinds can be performed: every one except at the first operation of the current script (the switch to a later script of a spend and
            # the steps of the taproot commitment are not undone) - a session in which no rewind is ever accepted must not pass as "refused, nothing changed"
            can = prev.get('pc', 0) != 0
            ctx.count('rewind-%s' % ('possible' if can else 'impossible'))
            if bool(e['acc']) != can:
                raise Violation((sess, hist[:i + 1]), 'command %d: a rewind that %s (position %d of the current script) was %s' % (i, 'can be performed' if can else 'cannot be performed', prev.get('pc', 0), 'accepted' if e['acc'] else 'refused'),
                                observed=bool(e['acc']), expected=can)
        if e['c'] == 'r' and not e['acc']:
            df = diff(prev, d)
            if df:
                raise Violation(case, 'a refused rewind changed the state (%s) at command %d' % (df, i), observed=proj(d), expected=proj(prev))
        if e['c'] == 's' and e['acc']:
            for k in diff(prev, d):
                touched.add(k)
        want = fdumps[nets[i]]
        df = diff(want, d)
        if df:
            sig = classify(df, log, i, prev)
            if sig and core.kf_active(sig):
                ctx.known_hit(sig, case_json((sess, hist[:i + 1])))
                return
            raise Violation((sess, hist[:i + 1]), 'after command %d (%s, net %d) the state differs from a fresh session advanced by %d steps in %s' % (i, e['c'], nets[i], nets[i], df),
                            observed={k: d.get(k) for k in df}, expected={k: want.get(k) for k in df})
        if e['c'] == 'r' and e['acc']:
            rewound_over = True
        prev = d
    # continuing to the end must equal the fresh session's continuation from the same net position
    fnet = nets[len(log) - 1]
    fresh_rest = [small(x) for x in fdumps[fnet + 1:]] + fresh['rest']
    if live['rest'] != fresh_rest or live['ok'] != fresh['ok'] or live['err'] != fresh['err']:
        raise Violation(case, 'continuing to the end after the history differs from a fresh session (outcome %r vs %r, %d vs %d remaining operations)' % (
            live['err'] or 'ok', fresh['err'] or 'ok', len(live['rest']), len(fresh_rest)), observed=live['rest'][-2:], expected=fresh_rest[-2:])
    interesting = touched - {'st', 'pc', 'seq'}
    nontriv = rewound_over and bool(interesting) and (len(live['rest']) > 0)
    ctx.case(repr(case_json(case)), nontriv, dict(case_json(case), net=fnet, state_components_exercised=sorted(interesting)), sess['kind'])
    for k in interesting:
        if rewound_over:
            ctx.count('rewound-over:' + k)
    ctx.count('kind:' + sess['kind'])


def classify(df, log, i, prev):
    """narrow signatures for listed findings (none are listed unless known_findings.json says so)"""
    return None


# ------------------------------------------------------------------ strategies
@st.composite
def histories(draw, maxlen):
    n = draw(st.integers(1, maxlen))
    p = draw(st.sampled_from([10, 30, 50, 70]))
    out = []
    for _ in range(n):
        out.append('r' if draw(st.integers(0, 99)) < p else 's')
    return out


@st.composite
def cases(draw, maxlen):
    sess = draw(SS.sessions())
    return (sess, draw(histories(maxlen)))


LONG_UNITS = [b'\x74', b'\x74', b'\x74\x6b', b'\x74\x8b', b'\x61', b'\x51\x75', b'\x51\x76\x87\x75', b'\x51\x6b\x6c\x75', b'\x51\x63\x61\x68', b'\x00\x63\x61\x67\x61\x68', b'\xab', b'\x74\x75', b'\x51\x51\x93\x75']


@st.composite
def long_cases(draw):
    """sessions of several hundred operations (tapscript has no operation limit; legacy / v0 up to 201) walked by long runs of steps and rewinds: every
    history vector far beyond 255 entries, rewinds over hundreds of operations, conditionals and code separators at positions beyond one byte"""
    sv = draw(st.sampled_from([R.TAPSCRIPT, R.TAPSCRIPT, R.WITNESS_V0, R.BASE]))
    # OP_DEPTH units make every position's stack / alt stack distinct (a restored-from-the-wrong-entry state is then visible)
    units = [draw(st.sampled_from(LONG_UNITS)) for _ in range(draw(st.integers(1, 4)))]
    nops = draw(st.sampled_from([260, 300, 520, 700])) if sv == R.TAPSCRIPT else draw(st.sampled_from([150, 199, 200]))
    body = bytearray()
    i = 0
    while len(R.decode(bytes(body))) < nops and (sv == R.TAPSCRIPT or sum(1 for e in R.decode(bytes(body) + units[i % len(units)]) if e[0] > 0x60) <= 200):
        body += units[i % len(units)]
        i += 1
    body += b'\x51'
    total = len(R.decode(bytes(body)))
    blocks = []
    for _ in range(draw(st.integers(2, 6))):
        blocks.append((draw(st.sampled_from(['s', 's', 'r'])), draw(st.sampled_from([1, 2, 5, 100, 200, 254, 255, 256, 257, 258, 300, 511, 512, 513, total, total + 1]))))
    hist = []
    for c_, n in [('s', draw(st.sampled_from([255, 256, 257, 300, total])))] + blocks:
        hist += [c_] * n
    return (dict(kind='long-%s' % {R.BASE: 'base', R.WITNESS_V0: 'v0', R.TAPSCRIPT: 'tapscript'}[sv], kw=dict(script=bytes(body), stack=[], flags=0, sv=sv)), hist[:1600])


def w_long(ctx, wid, seed, examples):
    core.hyp_campaign(ctx, 'long-walks', long_cases(), check_history, examples, seed, case_json)


def w_random(ctx, wid, seed, examples, maxlen):
    core.hyp_campaign(ctx, 'random-walks', cases(maxlen), check_history, examples, seed, case_json)


def all_histories(depth):
    out = []

    def rec(prefix):
        if prefix:
            out.append(prefix)
        if len(prefix) < depth:
            rec(prefix + ['s'])
            rec(prefix + ['r'])
    rec([])
    return out


def w_tree(ctx, wid, seed, nsess, depth):
    """complete history tree to `depth` for short sessions drawn deterministically from the session strategy"""
    import hypothesis
    from hypothesis import given, settings, HealthCheck, Phase
    sessions = []

    @settings(max_examples=nsess, database=None, deadline=None, suppress_health_check=list(HealthCheck), phases=[Phase.generate], verbosity=hypothesis.Verbosity.quiet)
    @hypothesis.seed(seed)
    @given(SS.sessions(short=True))
    def collect(s):
        sessions.append(s)
    collect()
    hs = all_histories(depth)
    h = harness()
    for s in sessions:
        for hist in hs:
            # prune: histories with more rewinds than steps at some prefix only add refused rewinds; keep them (they are in the domain) but they are cheap
            try:
                check_history((s, hist), ctx, h)
            except Violation as v:
                if len(ctx.violations) < 1:
                    ctx.violations.append(dict(campaign='history-tree', why=v.why, case=case_json(v.case), observed=v.observed, expected=v.expected, refails=3))
                return


def run(tier, t0):
    W = core.WORKERS
    if tier == 'quick':
        tasks = [(w_random, dict(examples=600, maxlen=60)) for _ in range(W)] + [(w_tree, dict(nsess=24, depth=8)) for _ in range(W)] + [(w_long, dict(examples=12)) for _ in range(4)]
    else:
        tasks = [(w_random, dict(examples=15000, maxlen=400)) for _ in range(W)] + [(w_tree, dict(nsess=300, depth=10)) for _ in range(W)] + [(w_long, dict(examples=400)) for _ in range(4)]
    m = core.parallel(PID, tasks)
    return core.finish(PID, tier, m, RULE, t0, min_nontrivial=300 if tier == 'quick' else 20000,
                       assumptions=['oracle is the tree itself: a fresh session advanced by the net number of accepted steps (metamorphic / model-based)',
                                    'the state dump covers stack, alt stack, condition stack, pc, op count, curr_op_seq, pbegincodehash, opcode_pos, code-separator position, validation weight, leaf hash, current script length, successor, p2sh flag, commitment phase, done'])


def replay(rec):
    case = case_from_json(rec['case'])
    try:
        check_history(case, core.Ctx(PID))
    except Violation as v:
        return False, 'still failing: %s\n  expected %r\n  observed %r' % (v.why, v.expected, v.observed)
    return True, 'ok'
