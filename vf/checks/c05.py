"""C05 - the step-by-step taproot commitment check equals the BIP341 rule.

Generator: (control block, leaf script, 32-byte program) triples - path lengths 0..128, both parity bits, all leaf versions,
nodes below / above / equal to the running hash, internal keys on and off the curve, scripts across the compact-size
boundary - built by an independent BIP341 implementation, plus every single-field corruption. Oracle: vf.ref.verify
(TapLeaf / TapBranch / TapTweak with own secp256k1 arithmetic): final verdict, every intermediate hash, the leaf hash.
Observation: harness `tce` (TaprootCommitmentEnv::Iterate until Done/Failed) and `spend` (size validation in
configure_tx_txin, hand-over of the leaf hash into script execution)."""
from hypothesis import strategies as st

from .. import cli, core
from ..core import Violation
from ..harness import Harness, kvline
from ..ref import script as R, secp, tx as T, verify as V
from ..ref.script import F

PID = 'C05'
RULE = ('(control, script, program) triples from the reference BIP341 builder and single-field corruptions; control sizes valid (33+32m, m<=128) via the stepwise check, invalid sizes via a spend session; '
        'non-trivial = valid commitment with m >= 1, or a corrupted one differing in exactly one field, or an invalid size; distinct = hash of the triple')
_H = {}


def harness():
    if 'h' not in _H:
        _H['h'] = Harness('plain')
    return _H['h']


STD = sum(F[n] for n in R.FLAGS if n != 'SIGPUSHONLY')


@st.composite
def internal_keys(draw):
    k = draw(st.integers(0, 9))
    if k < 7:
        d = draw(st.integers(1, secp.N - 1))
        return secp.xonly(secp.gen(d)), True
    if k == 7:
        # x with no square root
        x = draw(st.integers(1, secp.P - 1))
        while secp.lift_x(x) is not None:
            x = x + 1 if x + 1 < secp.P else 2
        return x.to_bytes(32, 'big'), False
    if k == 8:
        return draw(st.sampled_from([secp.P, secp.P + 1, 2 ** 256 - 1, 0])).to_bytes(32, 'big'), False
    x = draw(st.integers(1, secp.P - 1))
    while secp.lift_x(x) is None:
        x = x + 1 if x + 1 < secp.P else 1
    return x.to_bytes(32, 'big'), True


@st.composite
def scripts(draw):
    n = draw(st.one_of(st.integers(0, 40), st.sampled_from([0, 0, 1, 252, 253, 254, 520, 521, 10000, 10001, 12000, 65536])))
    if n > 300:
        # (half of the long leaves consist of OP_NOP: decodable, so that the spend session is really set up - a tapscript leaf has no size limit)
        return bytes([draw(st.one_of(st.just(0x61), st.integers(0, 255)))]) * n
    return draw(st.binary(min_size=n, max_size=n))


@st.composite
def triples(draw):
    pk, oncurve = draw(internal_keys())
    script = draw(scripts())
    leafver = draw(st.one_of(st.just(0xc0), st.integers(0, 127).map(lambda v: v * 2)))
    m = draw(st.one_of(st.integers(0, 4), st.sampled_from([0, 1, 2, 3, 7, 31, 32, 64, 127, 128])))
    leaf = V.tapleaf(leafver, script)
    k = leaf
    nodes = []
    for i in range(m):
        how = draw(st.integers(0, 9))
        if how == 0:
            node = k                                  # equal to the running hash
        elif how == 1:
            node = bytes([max(0, k[0] - 1)]) + k[1:] if k[0] else bytes(32)     # just below
        elif how == 2:
            node = k[:31] + bytes([min(255, k[31] + 1)])                         # just above (usually)
        elif how == 3:
            node = bytes(32) if draw(st.booleans()) else b'\xff' * 32
        else:
            node = draw(st.binary(min_size=32, max_size=32))
        nodes.append(node)
        k = secp.tagged('TapBranch', k + node if k < node else node + k)
    tw = secp.taproot_tweak_pub(pk, k) if oncurve else None
    if tw is not None:
        program, parity = tw
    else:
        program, parity = draw(st.binary(min_size=32, max_size=32)), draw(st.integers(0, 1))
    control = bytes([leafver | parity]) + pk + b''.join(nodes)
    # optional single-field corruption
    corr = draw(st.sampled_from(['none', 'none', 'parity', 'pk-bit', 'node-bit', 'program-bit', 'script-bit', 'leafver', 'drop-node', 'dup-node', 'swap-nodes', 'extra-node']))
    c, p, s = bytearray(control), bytearray(program), bytearray(script)
    if corr == 'parity':
        c[0] ^= 1
    elif corr == 'pk-bit':
        i = draw(st.integers(1, 32))
        c[i] ^= 1 << draw(st.integers(0, 7))
    elif corr == 'node-bit' and m:
        i = 33 + draw(st.integers(0, 32 * m - 1))
        c[i] ^= 1 << draw(st.integers(0, 7))
    elif corr == 'program-bit':
        i = draw(st.integers(0, 31))
        p[i] ^= 1 << draw(st.integers(0, 7))
    elif corr == 'script-bit' and s:
        i = draw(st.integers(0, len(s) - 1))
        s[i] ^= 1 << draw(st.integers(0, 7))
    elif corr == 'leafver':
        c[0] ^= 2 * draw(st.integers(1, 127))
    elif corr == 'drop-node' and m:
        i = draw(st.integers(0, m - 1))
        del c[33 + 32 * i: 65 + 32 * i]
    elif corr == 'dup-node' and 0 < m < 128:
        i = draw(st.integers(0, m - 1))
        c[33 + 32 * i:33 + 32 * i] = c[33 + 32 * i: 65 + 32 * i]
    elif corr == 'swap-nodes' and m >= 2:
        i = draw(st.integers(0, m - 2))
        a, b = bytes(c[33 + 32 * i: 65 + 32 * i]), bytes(c[65 + 32 * i: 97 + 32 * i])
        c[33 + 32 * i: 97 + 32 * i] = b + a
    elif corr == 'extra-node' and m < 128:
        c += draw(st.binary(min_size=32, max_size=32))
    else:
        corr = 'none'
    return dict(control=bytes(c), program=bytes(p), script=bytes(s), corr=corr, m=m)


def case_json(c):
    return dict(control=c['control'].hex(), program=c['program'].hex(), script=c['script'].hex() if len(c['script']) <= 600 else None, script_len=len(c['script']),
                script_byte=c['script'][:1].hex() if len(c['script']) > 600 else None, corr=c['corr'], m=(len(c['control']) - 33) // 32)


def case_from_json(j):
    script = bytes.fromhex(j['script']) if j.get('script') is not None else bytes.fromhex(j['script_byte']) * j['script_len']
    return dict(control=bytes.fromhex(j['control']), program=bytes.fromhex(j['program']), script=script, corr=j['corr'], m=j['m'])


def check_triple(c, ctx):
    control, program, script = c['control'], c['program'], c['script']
    m = (len(control) - 33) // 32
    leaf = V.tapleaf(control[0] & 0xfe, script)
    ks = [leaf]
    k = leaf
    for i in range(m):
        node = control[33 + 32 * i: 65 + 32 * i]
        k = secp.tagged('TapBranch', k + node if k < node else node + k)
        ks.append(k)
    want = V.verify_commitment(control, program, leaf)
    nontriv = (c['corr'] == 'none' and m >= 1 and want) or c['corr'] != 'none'
    ctx.case(control + program + script[:64] + len(script).to_bytes(4, 'big'), nontriv, dict(case_json(c), expected='done' if want else 'failed'), 'm=%s:%s' % (m if m < 4 else ('4-31' if m < 32 else '32-128'), c['corr']))
    ctx.count('m:%d' % m)
    ctx.count('expected:' + ('valid' if want else 'invalid'))
    r = harness().req(kvline('tce', control=control, program=program, script=script))
    if r.get('timeout'):
        ctx.inconclusive += 1
        return
    if 'crash' in r or 'exit' in r:
        raise Violation(c, 'commitment check died: %r' % r, observed=r)
    if r['leaf'] != leaf.hex():
        raise Violation(c, 'derived leaf hash is not TapLeaf(leaf version || compact_size(script) || script)', observed=r['leaf'], expected=leaf.hex())
    if r['k'] != [x.hex() for x in ks]:
        bad = next((i for i in range(min(len(ks), len(r['k']))) if r['k'][i] != ks[i].hex()), min(len(ks), len(r['k'])))
        raise Violation(c, 'intermediate hash %d of %d differs from the BIP341 TapBranch value' % (bad, m), observed=r['k'][bad:bad + 1], expected=[x.hex() for x in ks[bad:bad + 1]])
    if (r['res'] == 'done') != want:
        raise Violation(c, 'stepwise commitment check ends in %s, BIP341 says %s (corruption: %s, m=%d)' % (r['res'], 'valid' if want else 'invalid', c['corr'], m), observed=r['res'], expected='done' if want else 'failed')
    if r['iters'] != m + 1:
        raise Violation(c, 'commitment check took %d iterations for a path of %d nodes' % (r['iters'], m), observed=r['iters'], expected=m + 1)
    if m <= 8 and (control[0] & 0xfe) == 0xc0 and len(program) == 32 and len(control) == 33 + 32 * m and len(script) <= 70000:
        check_phase(c, ctx, want, m)


def check_phase(c, ctx, want, m):
    """the same triple as a tapscript spend session, stepped past the end of the commitment phase: a failed check stays failed - every further
    step fails too and the session never reaches the leaf script -, a passed one hands over to the script"""
    control, program, script = c['control'], c['program'], c['script']
    fund = T.Tx()
    fund.vin = [dict(txid=bytes(32), n=0, script=b'\x51', seq=0xffffffff, wit=[])]
    fund.vout = [dict(value=10000, spk=b'\x51\x20' + program)]
    tx = T.Tx()
    tx.vin = [dict(txid=fund.txid(), n=0, script=b'', seq=0xffffffff, wit=[b'\x01', script, control])]
    tx.vout = [dict(value=9000, spk=b'\x51')]
    r = harness().req(kvline('session', spendtx=tx.ser().hex(), spendtxin=fund.ser().hex(), flags=STD, cmds=','.join(['s'] * (m + 5))))
    if 'crash' in r or 'exit' in r:
        raise Violation(c, 'spend session died in the commitment phase: %r' % r, observed=r)
    if 'refused' in r or r.get('timeout'):
        ctx.count('phase:session-refused:%s' % r.get('refused', 'timeout'))
        if 'refused' in r and all(b == 0x61 for b in script):
            # an empty leaf or one made of OP_NOP is decodable whatever its length: the session must be set up (the commitment then decides)
            raise Violation(c, 'a spend of a decodable leaf of %d bytes is refused at set-up (%s): the commitment check never runs' % (len(script), r['refused']), observed=r)
        return
    ctx.count('phase:' + ('valid' if want else 'invalid') + (':empty-leaf' if not script else (':leaf>10000' if len(script) > 10000 else '')))
    log = r['log']
    if want:
        if any(not e['acc'] for e in log[:m + 1]) or log[m]['d']['tce']:
            raise Violation(c, 'valid commitment: the commitment phase of the session does not complete in %d steps' % (m + 1), observed=[(e['acc'], e['d']['tce']) for e in log[:m + 2]])
        return
    failed_at = next((i for i, e in enumerate(log) if not e['acc']), None)
    if failed_at is None or failed_at > m:
        raise Violation(c, 'invalid commitment: no step of the commitment phase fails', observed=[(e['acc'], e['d']['tce']) for e in log])
    if log[failed_at]['err'] != R.ERR['WITNESS_PROGRAM_MISMATCH']:
        raise Violation(c, 'invalid commitment: the failing step reports %r, the error of a commitment that does not hold is %r' % (log[failed_at]['err'], R.ERR['WITNESS_PROGRAM_MISMATCH']),
                        observed=log[failed_at]['err'], expected=R.ERR['WITNESS_PROGRAM_MISMATCH'])
    for e in log[failed_at:]:
        if e['acc'] or not e['d']['tce'] or e['d']['pc'] != 0 or e['d']['done']:
            raise Violation(c, 'invalid commitment: after the failed check a further step is accepted / the session leaves the commitment phase (accepted=%r, in commitment phase=%r, pc=%r)' % (
                e['acc'], e['d']['tce'], e['d']['pc']), observed=[(x['acc'], x['d']['tce'], x['d']['pc']) for x in log[failed_at:]], expected='every step fails, still in the commitment phase')


def check_display(c, ctx):
    """what an interactive session shows of the commitment check (the taproot log lines on stderr, on by default on a terminal, and the `k:` column):
    the leaf hash and every intermediate hash must be the BIP341 values (byte order as in BIP341: the digest as produced)"""
    import re
    control, program, script = c['control'], c['program'], c['script']
    m = (len(control) - 33) // 32
    leaf = V.tapleaf(control[0] & 0xfe, script)
    ks = [leaf]
    for i in range(m):
        node = control[33 + 32 * i: 65 + 32 * i]
        ks.append(secp.tagged('TapBranch', ks[-1] + node if ks[-1] < node else node + ks[-1]))
    fund = T.Tx()
    fund.vin = [dict(txid=bytes(32), n=0, script=b'\x51', seq=0xffffffff, wit=[])]
    fund.vout = [dict(value=10000, spk=b'\x51\x20' + program)]
    tx = T.Tx()
    tx.vin = [dict(txid=fund.txid(), n=0, script=b'', seq=0xffffffff, wit=[b'\x01', script, control])]
    tx.vout = [dict(value=9000, spk=b'\x51')]
    rp = cli.Repl(['--tx=' + tx.ser().hex(), '--txin=' + fund.ser().hex()])
    outs, err, _status = rp.session(['step'] * (m + 1))
    err = err if isinstance(err, str) else err.decode(errors='replace')
    ctx.case(b'display' + control + program + script[:40], True, dict(case_json(c), display=True), 'display:m=%d' % m)
    shown = re.findall(r'^- k\s+= ([0-9a-f]{64})', err, re.M) + re.findall(r'^\s+- \d+: k -> ([0-9a-f]{64})', err, re.M)
    if not shown:
        ctx.count('display:no-log-lines')
        return
    want = [x.hex() for x in ks[:len(shown)]]
    if shown != want:
        bad = next(i for i in range(len(shown)) if shown[i] != want[i])
        raise Violation(c, 'the commitment log shows %s as %s, the BIP341 value is %s%s' % ('the tap leaf hash' if bad == 0 else 'intermediate hash %d' % bad, shown[bad], want[bad],
                        ' (the bytes are reversed)' if bytes.fromhex(shown[bad])[::-1].hex() == want[bad] else ''), observed=shown, expected=want)
    ctx.count('display:hashes-compared', len(shown))


@st.composite
def display_cases(draw):
    c = draw(triples())
    return c


def w_display(ctx, wid, seed, examples):
    def ok(c):
        m = (len(c['control']) - 33) // 32
        return len(c['control']) == 33 + 32 * m and m <= 6 and (c['control'][0] & 0xfe) == 0xc0 and len(c['program']) == 32 and 0 < len(c['script']) <= 200 and R.has_valid_ops(c['script'], 0xba)
    core.hyp_campaign(ctx, 'display', triples().filter(ok), check_display, examples, seed, case_json)


# ---- size validation and hand-over through a spend session
@st.composite
def size_cases(draw):
    d = draw(st.integers(1, secp.N - 1))
    pk = secp.xonly(secp.gen(d))
    script = b'\x51'
    leaf = V.tapleaf(0xc0, script)
    kind = draw(st.sampled_from(['valid', 'valid', 'short', 'plus1', 'minus1', 'too-long', 'too-long+', 'max']))
    m = draw(st.integers(0, 5))
    if kind == 'max':
        m = 128
    if kind.startswith('too-long'):
        m = 129 if kind == 'too-long' else draw(st.integers(130, 140))
    nodes = [draw(st.binary(min_size=32, max_size=32)) for _ in range(m)] if m < 10 else [bytes([i % 256]) * 32 for i in range(m)]
    k = leaf
    for node in nodes:
        k = secp.tagged('TapBranch', k + node if k < node else node + k)
    q, par = secp.taproot_tweak_pub(pk, k)
    control = bytes([0xc0 | par]) + pk + b''.join(nodes)
    if kind == 'short':
        control = control[:draw(st.sampled_from([0, 1, 32]))]
    elif kind == 'plus1':
        control += b'\x00'
    elif kind == 'minus1' and m:
        control = control[:-1]
    elif kind == 'minus1':
        control = control[:-1]
    return dict(kind=kind, control=control, script=script, q=q, leaf=leaf)


def check_size(c, ctx):
    fund = T.Tx()
    fund.vin = [dict(txid=bytes(32), n=0, script=b'\x51', seq=0xffffffff, wit=[])]
    fund.vout = [dict(value=10000, spk=b'\x51\x20' + c['q'])]
    tx = T.Tx()
    tx.vin = [dict(txid=fund.txid(), n=0, script=b'', seq=0xffffffff, wit=[c['script'], c['control']])]
    tx.vout = [dict(value=9000, spk=b'\x51')]
    n = len(c['control'])
    valid_size = n >= 33 and n <= 33 + 32 * 128 and (n - 33) % 32 == 0
    ctx.case(c['control'] + b'|size', True, dict(kind=c['kind'], control_size=n, valid_size=valid_size), 'size:' + c['kind'])
    r = harness().req(kvline('spend', tx=tx.ser().hex(), txin=fund.ser().hex(), flags=STD, mode='step', trace=0))
    if 'crash' in r or 'exit' in r:
        raise Violation(c, 'spend session with a %d-byte control block died: %r' % (n, r), observed=r)
    if not valid_size:
        if 'refused' not in r:
            raise Violation(c, 'control block of invalid size %d was not refused' % n, observed=str(r)[:300])
        return
    if 'refused' in r:
        raise Violation(c, 'control block of valid size %d (m=%d) refused: %r' % (n, (n - 33) // 32, r), observed=r)
    want_ok = V.verify_commitment(c['control'], c['q'], c['leaf'])
    if bool(r['ok']) != want_ok:
        raise Violation(c, 'spend with valid-size control block: session %s, BIP341 commitment is %s' % ('succeeds' if r['ok'] else 'fails: ' + r['err'], want_ok), observed=r['err'])
    if r['ok'] and r['final'].get('leaf') != c['leaf'].hex():
        raise Violation(c, 'leaf hash handed to script execution differs from the BIP341 leaf hash', observed=r['final'].get('leaf'), expected=c['leaf'].hex())


def size_json(c):
    return dict(kind=c['kind'], control=c['control'].hex(), script=c['script'].hex(), q=c['q'].hex(), leaf=c['leaf'].hex())


def w_triples(ctx, wid, seed, examples):
    core.hyp_campaign(ctx, 'triples', triples(), check_triple, examples, seed, case_json)


def w_sizes(ctx, wid, seed, examples):
    core.hyp_campaign(ctx, 'sizes', size_cases(), check_size, examples, seed, size_json)


def run(tier, t0):
    W = core.WORKERS
    nt, ns = (900, 120) if tier == 'quick' else (12000, 2500)
    m = core.parallel(PID, [(w_triples, dict(examples=nt)) for _ in range(W)] + [(w_sizes, dict(examples=ns)) for _ in range(max(2, W // 4))] + [(w_display, dict(examples=12 if tier == 'quick' else 400)) for _ in range(4)])
    return core.finish(PID, tier, m, RULE, t0, min_nontrivial=600 if tier == 'quick' else 30000,
                       assumptions=['independent BIP341 implementation (vf/ref/verify.py, vf/ref/secp.py) validated on the real-chain p2tr / p2ts pairs and BIP340 vector 0',
                                    'TaprootCommitmentEnv is only constructed with control blocks of at least 33 bytes (its only caller guarantees that)'])


def replay(rec):
    j = rec['case']
    ctx = core.Ctx(PID)
    try:
        if 'q' in j:
            check_size(dict(kind=j['kind'], control=bytes.fromhex(j['control']), script=bytes.fromhex(j['script']), q=bytes.fromhex(j['q']), leaf=bytes.fromhex(j['leaf'])), ctx)
        elif rec.get('campaign') == 'display':
            check_display(case_from_json(j), ctx)
        else:
            check_triple(case_from_json(j), ctx)
    except Violation as v:
        return False, 'still failing: %s\n  expected %r\n  observed %r' % (v.why, v.expected, v.observed)
    return True, 'ok'
