"""C06 - tap: the printed address and witnesses verify, whatever leaf is spent.

The real `tap` and `btcdeb` binaries only. For an internal key P (secret known) and n leaf scripts:
 (1) the printed address bech32m-decodes (reference codec) to HRP as requested, witness version 1, a 32-byte program Q;
 (2) the address is the same with and without a selected leaf;
 (3) for every index i, the witness emitted by `tap --tx --txin ... i args` ends with scripts[i] and a control block that verifies
     under the reference BIP341 implementation against Q; folding gives the same merkle root for every i, and
     Q = lift_x(P) + H_TapTweak(P||root)G with the stated parity;
 (4) the resulting transaction is accepted by `btcdeb --tx --txin` (commitment phase passes, leaf executes to true);
 (5) the `sighash (little endian)` that tap logs (both stdio on ptys) equals the reference BIP341 (key path) / BIP342 (script path)
     digest of the transaction tap outputs; a reference signature over it passed back with --sig gives a transaction that the
     reference VerifyScript and btcdeb accept."""
import re

from hypothesis import strategies as st

from .. import cli, core
from ..core import Violation
from ..ref import bech32 as B, script as R, secp, tx as T, verify as V
from ..ref.script import F

PID = 'C06'
RULE = ('(internal key, n leaf scripts, selected index, address prefix): every (n, index) with n <= 16 (quick) / n <= 64 (thorough) once per run plus random n up to 1024 and random script contents '
        '(distinct, all equal, pairs equal, signature-consuming, argument-consuming); non-trivial = n >= 2 with a selected index; distinct = hash of (key, scripts, index, prefix)')
STD = V.STANDARD
ADDR = re.compile(r'Resulting Bech32m address: (\S+)')
RTX = re.compile(r'Resulting transaction: ([0-9a-f]+)')
SIGH = re.compile(r'sighash \(little endian\) = ([0-9a-f]{64})')


def P(d):
    return R.push_enc(d)


def keypair(i):
    d = int.from_bytes(R.sha256(b'tap-key-%d' % i), 'big') % secp.N
    return d, secp.xonly(secp.gen(d))


def leaf_script(kind, i, key_x):
    if kind == 'drop':
        return b'\x75' + (bytes([0x51 + (i % 16)]))                 # OP_DROP OP_n  (the placeholder / signature is the deepest item)
    if kind == 'same':
        return b'\x75\x51'
    if kind == 'args':
        return b'\x93' + P(R.num_enc(300 + i)) + b'\x88\x75\x51'    # a b ADD <300+i> EQUALVERIFY DROP 1
    if kind == 'checksig':
        return P(key_x) + b'\xac'
    if kind == 'codesep':
        return b'\xab' + P(key_x) + b'\xac'                        # OP_CODESEPARATOR <key> OP_CHECKSIG: the digest commits to the separator's position (0)
    if kind == 'big':
        return b'\x75' + P(bytes([i % 256]) * 300) + b'\x75\x51'
    if kind == 'len32':
        return b'\x75' + P(bytes([i % 256]) * 28) + b'\x75\x51'      # a leaf script of exactly 32 bytes (the size of a hash: it is a script all the same)
    if kind == 'huge':
        # a leaf script that is itself longer than a stack element may be (a script is not an element of the stack: only its arguments are limited)
        return b'\x75' + P(bytes([i % 256]) * 520) + b'\x75' + P(bytes([7]) * (80 + i % 40)) + b'\x75\x51'
    if kind in ('prefix8a', 'prefix8b'):
        # two leaves whose BIP341 leaf hashes agree in their first 8 bytes (found by native/tools/prefix_collide.cpp, kept in corpus/c06_prefix8.json): as siblings,
        # their order is decided by the NINTH byte - an ordering that looks at a prefix only gets it wrong one way round
        import json, os
        j = json.load(open(os.path.join(os.path.dirname(os.path.dirname(os.path.dirname(os.path.abspath(__file__)))), 'corpus', 'c06_prefix8.json')))
        a, b = bytes.fromhex(j['script_a']), bytes.fromhex(j['script_b'])
        assert a != b and V.tapleaf(0xc0, a)[:8] == V.tapleaf(0xc0, b)[:8], 'corpus/c06_prefix8.json is not a prefix collision'
        return a if kind == 'prefix8a' else b
    if kind == 'nosig':
        return b'\x51'                                               # OP_1: consumes nothing - the signature slot tap always adds stays on the stack (known finding)
    if kind == 'empty':
        return b''                                                  # the empty script is a valid leaf: the deepest witness item is what remains
    if kind in ('zero00', 'ffff'):
        # leaf hashes with a chosen first byte (0x00 / 0xff): sibling hashes that agree in a leading 0x00 byte or sort at the extremes
        want = 0 if kind == 'zero00' else 0xff
        nonce = 0
        while True:
            sc = P(bytes([i % 256]) + nonce.to_bytes(3, 'big')) + b'\x6d\x51'      # <4-byte nonce> OP_2DROP OP_1 (drops nonce and signature)
            if V.tapleaf(0xc0, sc)[0] == want:
                return sc
            nonce += 1
    raise ValueError(kind)


def run_tap(argv, tty):
    exe = cli.binpath('tap')
    if tty:
        return cli.run(exe, argv, stdin_tty=True, stdout_tty=True, timeout=20)
    return cli.run(exe, argv, stdin=b'', timeout=20)


def build_case(n, index, kinds, keyi, prefix, leaf_key_i=None):
    d, px = keypair(keyi)
    ld, lx = keypair(leaf_key_i if leaf_key_i is not None else keyi + 1)
    scripts = [leaf_script(kinds[i % len(kinds)], i, lx) for i in range(n)]
    return dict(n=n, index=index, kinds=kinds, keyi=keyi, prefix=prefix, d=d, px=px, ld=ld, lx=lx, scripts=scripts)


def case_json(c):
    return dict(n=c['n'], index=c['index'], kinds=c['kinds'], keyi=c['keyi'], prefix=c['prefix'], leaf_key_i=c.get('leaf_key_i'))


def case_from_json(j):
    c = build_case(j['n'], j['index'], j['kinds'], j['keyi'], j['prefix'], j.get('leaf_key_i'))
    c['leaf_key_i'] = j.get('leaf_key_i')
    return c


def base_args(c):
    a = []
    if c['prefix'] is not None:
        a.append('--addrprefix=' + c['prefix'])
    return a


def tap_positional(c):
    return [c['px'].hex(), str(c['n'])] + ['0x' + s.hex() for s in c['scripts']]


def get_address(c, selected):
    argv = base_args(c) + tap_positional(c)
    if selected:
        argv += [str(c['index'])]
    r = run_tap(argv, tty=False)
    if r.timed_out:
        raise core.Inconclusive()
    if r.abnormal or r.rc != 0:
        raise Violation(c, 'tap failed to produce an address (selected=%s): %r' % (selected, r), observed=repr(r))
    m = ADDR.search(r.out.decode(errors='replace'))
    if not m:
        raise Violation(c, 'tap printed no address', observed=repr(r))
    return m.group(1)


def check_case(c, ctx):
    n, idx = c['n'], c['index']
    hrp = c['prefix'] if c['prefix'] is not None else 'bcrt'
    kind = c['kinds'][idx % len(c['kinds'])]
    key = repr(case_json(c))
    ctx.case(key, n >= 2, dict(case_json(c), selected_kind=kind), 'n=%s:%s' % (n if n <= 4 else ('5-16' if n <= 16 else ('17-64' if n <= 64 else '65+')), kind))
    ctx.count('n:%d' % n if n <= 64 else 'n:65+')
    try:
        addr = get_address(c, False)
        # (1)
        dec = B.segwit_decode(addr)
        if dec is None or dec[3] != 'bech32m':
            raise Violation(c, 'printed address %s is not a valid bech32m segwit address' % addr, observed=addr)
        if dec[0] != hrp.lower() or dec[1] != 1 or len(dec[2]) != 32:
            raise Violation(c, 'address %s decodes to hrp=%s version=%d program of %d bytes; expected hrp=%s, version 1, 32 bytes' % (addr, dec[0], dec[1], len(dec[2]), hrp), observed=list(dec[:2]))
        q = dec[2]
        # (2)
        addr2 = get_address(c, True)
        if addr2 != addr:
            raise Violation(c, 'address differs when a leaf is selected for spending: %s vs %s' % (addr, addr2), observed=[addr, addr2])
        # funding / spending pair built by the reference, paying to Q
        fund = T.Tx()
        fund.vin = [dict(txid=bytes(32), n=0, script=b'\x51', seq=0xffffffff, wit=[])]
        fund.vout = [dict(value=50000 + n, spk=b'\x51'), dict(value=100000 + idx, spk=b'\x51\x20' + q)]
        tx = T.Tx()
        tx.version = 2
        tx.locktime = n
        tx.vin = [dict(txid=fund.txid(), n=1, script=b'', seq=0xfffffffd, wit=[])]
        tx.vout = [dict(value=90000, spk=b'\x00\x14' + bytes(20))]
        spent = [fund.vout[1]]
        args = []
        if kind == 'args':
            args = [str(100 + idx), str(200)]        # a + b = 300 + idx
        argv = base_args(c) + ['--tx=' + tx.ser().hex(), '--txin=' + fund.ser().hex()] + tap_positional(c) + [str(idx)] + args
        r = run_tap(argv, tty=True)
        if r.timed_out:
            raise core.Inconclusive()
        if r.abnormal or r.rc != 0:
            raise Violation(c, 'tap failed in script-path mode: %r' % r, observed=repr(r))
        out = r.out.decode(errors='replace')
        err = r.err.decode(errors='replace')
        m = RTX.search(out)
        if not m:
            raise Violation(c, 'tap printed no resulting transaction', observed=out[-300:])
        rtx = T.Tx.parse(bytes.fromhex(m.group(1)))
        wit = rtx.vin[0]['wit']
        if len(wit) < 3:
            raise Violation(c, 'emitted witness has %d items' % len(wit), observed=[w.hex()[:40] for w in wit])
        control, script = wit[-1], wit[-2]
        # (3)
        if script != c['scripts'][idx]:
            raise Violation(c, 'emitted witness script is not the selected script #%d' % idx, observed=script.hex()[:80], expected=c['scripts'][idx].hex()[:80])
        leaf = V.tapleaf(0xc0, script)
        if len(control) < 33 or (len(control) - 33) % 32 or control[0] & 0xfe != 0xc0 or control[1:33] != c['px']:
            raise Violation(c, 'control block malformed (size %d, first byte %#x)' % (len(control), control[0] if control else -1), observed=control.hex()[:80])
        if not V.verify_commitment(control, q, leaf):
            raise Violation(c, 'emitted control block for leaf #%d of %d does not verify under BIP341 against the printed address' % (idx, n), observed=control.hex()[:200])
        root = V.taproot_root(control, leaf)
        tw = secp.taproot_tweak_pub(c['px'], root)
        if tw is None or tw[0] != q or tw[1] != (control[0] & 1):
            raise Violation(c, 'printed output key is not lift_x(P) + H_TapTweak(P || root) G with the stated parity', observed=q.hex())
        c.setdefault('_roots', {})[idx] = root
        # (5) logged sighash = BIP342 digest of the transaction tap outputs (hash type DEFAULT, no annex, no code separator)
        ms = SIGH.search(err)
        if not ms:
            raise Violation(c, 'tap (on ptys) logged no sighash', observed=err[-300:])
        want = T.sighash_taproot(rtx, 0, spent, 0, None, leaf, 0 if kind == 'codesep' else 0xffffffff)
        if kind == 'codesep' and ms.group(1) != want.hex() and core.kf_active('C06-codesep-leaf'):
            # known finding: tap fixes the code-separator position at "none"; excluded here, everything up to this point (address, control block) was checked
            ctx.known_hit('C06-codesep-leaf', case_json(c))
            return
        if ms.group(1) != want.hex():
            raise Violation(c, 'logged script-path sighash differs from the BIP342 digest of the transaction tap printed', observed=ms.group(1), expected=want.hex())
        # (4) btcdeb accepts the transaction (for signature-consuming leaves: after --sig with a reference signature)
        final_hex = m.group(1)
        if kind in ('checksig', 'codesep'):
            sig = secp.schnorr_sign(c['ld'], want)
            r2 = run_tap(base_args(c) + ['--sig=' + sig.hex(), '--tx=' + tx.ser().hex(), '--txin=' + fund.ser().hex()] + tap_positional(c) + [str(idx)] + args, tty=False)
            m2 = RTX.search(r2.out.decode(errors='replace'))
            if r2.abnormal or r2.rc != 0 or not m2:
                raise Violation(c, 'tap --sig failed: %r' % r2, observed=repr(r2))
            final_hex = m2.group(1)
            ftx = T.Tx.parse(bytes.fromhex(final_hex))
            e = V.verify_script(b'', fund.vout[1]['spk'], ftx.vin[0]['wit'], STD, V.Checker(ftx, 0, fund.vout[1]['value'], spent))
            if e is not None:
                raise Violation(c, 'transaction produced by tap --sig (reference signature over the logged sighash) does not validate: %s' % e, observed=e)
            ctx.count('script-path-signed')
        rb = cli.run(cli.binpath('btcdeb'), ['--tx=' + final_hex, '--txin=' + fund.ser().hex()], stdin=b'\n', timeout=20)
        if rb.timed_out:
            raise core.Inconclusive()
        last = rb.out.strip().splitlines()[-1:] if rb.out.strip() else []
        want_top = [b'01'] if kind in ('checksig', 'codesep', 'same', 'args', 'big', 'huge', 'len32', 'zero00', 'ffff', 'prefix8a', 'prefix8b') else [b'%02x' % (1 + idx % 16)]
        if kind == 'empty' and last and int(last[0] or b'0', 16) != 0:
            want_top = last          # an empty leaf leaves the (non-zero) placeholder / signature item: any single true item
        if kind == 'nosig':
            lines_ = rb.out.strip().splitlines()
            if not rb.abnormal and rb.rc == 0 and len(lines_) == 2 and lines_[-1] == b'01' and core.kf_active('C06-sigless-leaf'):
                # known finding: the leaf is executed with the signature slot in front of it; address, control block, commitment and digest were checked above
                ctx.known_hit('C06-sigless-leaf', case_json(c))
                return
        if rb.abnormal or rb.rc != 0 or len(rb.out.strip().splitlines()) != 1 or last != want_top:
            raise Violation(c, 'btcdeb does not accept the transaction tap produced for leaf #%d of %d (rc=%s, stack %r, err %r)' % (idx, n, rb.rc, rb.out[-80:], rb.err[-200:]), observed=[rb.rc, rb.out.decode(errors='replace')[-80:]])
    except core.Inconclusive:
        ctx.inconclusive += 1


def check_long_prefix(ctx):
    """an address prefix that would make the address longer than 90 characters (not a valid bech32m string any more) is refused, the longest admissible one works"""
    d, px = keypair(3)
    for n, ok in ((30, True), (31, False), (40, False), (83, False)):
        r = run_tap(['--addrprefix=' + 'a' * n, px.hex(), '1', '0x51'], tty=False)
        ctx.case('long-prefix-%d' % n, True, dict(prefix_length=n), 'prefix-length')
        m = ADDR.search(r.out.decode(errors='replace'))
        if ok:
            dec = B.segwit_decode(m.group(1)) if m else None
            if r.rc != 0 or dec is None or len(m.group(1)) > 90:
                ctx.violations.append(dict(campaign='prefix-length', why='a %d-character prefix must give a valid address of at most 90 characters: %r' % (n, r.out[-120:]), case=dict(prefix_length=n), refails=3))
                return
        elif r.rc == 0 and m:
            ctx.violations.append(dict(campaign='prefix-length', why='a %d-character prefix gives the %d-character string %s, which is not a valid bech32m address (limit 90)' % (n, len(m.group(1)), m.group(1)[:40] + '...'),
                                       case=dict(prefix_length=n), observed=len(m.group(1)), refails=3))
            return


def check_keypath(c, ctx):
    """key-path mode: tap --tx --txin <P> <n> <scripts...> (no index): sighash = BIP341 key-path digest; a signature with the tweaked secret validates"""
    n = c['n']
    ctx.case('kp' + repr(case_json(c)), True, dict(case_json(c), mode='key-path'), 'key-path')
    try:
        addr = get_address(c, False)
        dec = B.segwit_decode(addr)
        if dec is None:
            raise Violation(c, 'address invalid', observed=addr)
        q = dec[2]
        fund = T.Tx()
        fund.vin = [dict(txid=bytes(32), n=0, script=b'\x51', seq=0xffffffff, wit=[])]
        fund.vout = [dict(value=70000 + n, spk=b'\x51\x20' + q)]
        tx = T.Tx()
        tx.vin = [dict(txid=fund.txid(), n=0, script=b'', seq=0xffffffff, wit=[])]
        tx.vout = [dict(value=60000, spk=b'\x51'), dict(value=1, spk=b'\x00\x14' + bytes(20))]
        spent = [fund.vout[0]]
        argv = base_args(c) + ['--tx=' + tx.ser().hex(), '--txin=' + fund.ser().hex()] + tap_positional(c)
        r = run_tap(argv, tty=True)
        if r.timed_out:
            raise core.Inconclusive()
        if r.abnormal or r.rc != 0:
            raise Violation(c, 'tap failed in key-path mode: %r' % r, observed=repr(r))
        ms = SIGH.search(r.err.decode(errors='replace'))
        m = RTX.search(r.out.decode(errors='replace'))
        if not ms or not m:
            raise Violation(c, 'tap key-path mode printed no sighash / transaction', observed=repr(r))
        rtx = T.Tx.parse(bytes.fromhex(m.group(1)))
        want = T.sighash_taproot(rtx, 0, spent, 0, None, None)
        if ms.group(1) != want.hex():
            raise Violation(c, 'logged key-path sighash differs from the BIP341 digest', observed=ms.group(1), expected=want.hex())
        # the merkle root is not printed separately: recover the tweaked secret through the script-path proof of leaf 0
        r0 = run_tap(base_args(c) + ['--tx=' + tx.ser().hex(), '--txin=' + fund.ser().hex()] + tap_positional(c) + ['0'], tty=False)
        m0 = RTX.search(r0.out.decode(errors='replace'))
        w0 = T.Tx.parse(bytes.fromhex(m0.group(1))).vin[0]['wit']
        root = V.taproot_root(w0[-1], V.tapleaf(0xc0, w0[-2]))
        dq = secp.taproot_tweak_sec(c['d'], root)
        sig = secp.schnorr_sign(dq, want)
        r2 = run_tap(base_args(c) + ['--sig=' + sig.hex(), '--tx=' + tx.ser().hex(), '--txin=' + fund.ser().hex()] + tap_positional(c), tty=False)
        m2 = RTX.search(r2.out.decode(errors='replace'))
        if r2.abnormal or r2.rc != 0 or not m2:
            raise Violation(c, 'tap --sig (key path) failed: %r' % r2, observed=repr(r2))
        ftx = T.Tx.parse(bytes.fromhex(m2.group(1)))
        e = V.verify_script(b'', fund.vout[0]['spk'], ftx.vin[0]['wit'], STD, V.Checker(ftx, 0, fund.vout[0]['value'], spent))
        if e is not None:
            raise Violation(c, 'key-path transaction produced by tap --sig does not validate: %s' % e, observed=e)
        rb = cli.run(cli.binpath('btcdeb'), ['--tx=' + m2.group(1), '--txin=' + fund.ser().hex()], stdin=b'\n', timeout=20)
        if rb.timed_out:
            raise core.Inconclusive()
        if rb.abnormal or rb.rc != 0 or rb.out.strip() != b'01':
            raise Violation(c, 'btcdeb does not accept the key-path transaction tap produced', observed=[rb.rc, rb.out[-80:], rb.err[-200:]])
    except core.Inconclusive:
        ctx.inconclusive += 1


KIND_SETS = [['len32'], ['drop', 'len32'], ['huge'], ['huge', 'drop'], ['prefix8a', 'prefix8b'], ['prefix8b', 'prefix8a'], ['drop', 'prefix8b', 'prefix8a', 'same'], ['nosig'], ['nosig', 'drop'], ['empty'], ['empty', 'drop'], ['drop', 'empty', 'checksig'], ['drop'], ['same'], ['drop', 'same', 'same'], ['checksig', 'drop'], ['args', 'drop'], ['checksig'], ['big', 'drop'], ['drop', 'checksig', 'args', 'same'], ['zero00'], ['zero00'], ['zero00', 'ffff'], ['ffff', 'drop'], ['codesep'], ['codesep', 'drop']]
PREFIXES = [None, None, 'bc', 'tb', 'bcrt', 'xyz', 'a', 'x1', 'tb1', 'bc11', 'a1b', '1x', 'q~!1']


def w_grid(ctx, wid, seed, pairs):
    """deterministic part: the given (n, index) pairs, script contents / key / prefix chosen by a seed-derived rule"""
    for (n, idx) in pairs:
        h = core.derive(seed, n, idx)
        c = build_case(n, idx, KIND_SETS[h % len(KIND_SETS)], (h >> 8) % 50, PREFIXES[(h >> 16) % len(PREFIXES)])
        try:
            check_case(c, ctx)
        except Violation as v:
            if len(ctx.violations) < 2:
                ctx.violations.append(dict(campaign='grid', why=v.why, case=case_json(c), observed=v.observed, expected=v.expected, refails=3))
            return


def w_prefix8(ctx, wid, seed):
    """sibling leaves whose hashes agree in their first 8 bytes, both ways round, every index (directed: the grid only meets them by the luck of its rule)"""
    for n, kinds in ((2, ['prefix8a', 'prefix8b']), (2, ['prefix8b', 'prefix8a']), (4, ['drop', 'same', 'prefix8b', 'prefix8a']), (4, ['prefix8a', 'prefix8b', 'drop', 'same']), (3, ['prefix8b', 'prefix8a', 'drop'])):
        for idx in range(n):
            c = build_case(n, idx, kinds, 11 + n, None)
            ctx.count('prefix8-siblings')
            try:
                check_case(c, ctx)
            except Violation as v:
                ctx.violations.append(dict(campaign='prefix8', why=v.why, case=case_json(c), observed=v.observed, expected=v.expected, refails=3))
                return


@st.composite
def random_cases(draw):
    n = draw(st.one_of(st.integers(1, 20), st.integers(1, 200), st.sampled_from([1, 2, 3, 63, 64, 65, 127, 128, 129, 255, 256, 257, 1023, 1024])))
    idx = draw(st.integers(0, n - 1))
    kinds = draw(st.lists(st.sampled_from(['drop', 'same', 'checksig', 'args', 'big', 'zero00', 'zero00', 'ffff', 'codesep', 'empty', 'huge', 'len32']), min_size=1, max_size=5))
    if n > 100:
        kinds = [k for k in kinds if k not in ('big', 'huge')] or ['drop']
    # (the longest prefix that still gives an address of at most 90 characters is 30 characters long; longer ones must be refused - see check_long_prefix)
    prefix = draw(st.one_of(st.sampled_from(PREFIXES), st.text(alphabet='abcdefghijklmnopqrstuvwxyz', min_size=1, max_size=8), st.text(alphabet='abz019!~-_', min_size=1, max_size=6), st.sampled_from(['a' * 29, 'b' * 30, 'q' * 30])))
    return build_case(n, idx, kinds, draw(st.integers(0, 200)), prefix)


def w_random(ctx, wid, seed, examples):
    core.hyp_campaign(ctx, 'random', random_cases(), check_case, examples, seed, case_json)


def w_prefix_length(ctx, wid, seed):
    check_long_prefix(ctx)


def w_keypath(ctx, wid, seed, examples):
    core.hyp_campaign(ctx, 'key-path', random_cases().filter(lambda c: c['n'] <= 40), check_keypath, examples, seed, case_json)


def run(tier, t0):
    W = core.WORKERS
    maxn = 16 if tier == 'quick' else 64
    pairs = [(n, i) for n in range(1, maxn + 1) for i in range(n)]
    chunks = [pairs[k::W] for k in range(W)]
    nr, nk = (90, 40) if tier == 'quick' else (4000, 1200)
    tasks = [(w_grid, dict(pairs=ch)) for ch in chunks] + [(w_random, dict(examples=nr)) for _ in range(W // 2)] + [(w_keypath, dict(examples=nk)) for _ in range(W // 4)] + [(w_prefix_length, dict()), (w_prefix8, dict())]
    m = core.parallel(PID, tasks)
    m.exhaustive = False
    return core.finish(PID, tier, m, RULE, t0, min_nontrivial=120 if tier == 'quick' else 2000, extra=dict(grid='every (n, index) with 1 <= n <= %d: %d pairs' % (maxn, len(pairs))),
                       assumptions=['reference BIP341/BIP350 implementations (vf/ref/verify.py, vf/ref/bech32.py, vf/ref/secp.py)', 'the spending transaction has a single input (tap computes the digest from one spent output)',
                                    'tap always places a signature (or its 64-byte placeholder) as the deepest witness item, so leaf scripts in this check consume it'])


def replay(rec):
    c = case_from_json(rec['case'])
    try:
        if rec.get('campaign') == 'key-path':
            check_keypath(c, core.Ctx(PID))
        else:
            check_case(c, core.Ctx(PID))
    except Violation as v:
        return False, 'still failing: %s\n  expected %r\n  observed %r' % (v.why, v.expected, v.observed)
    return True, 'ok'
