"""C07 - btcc assembles every token sequence into the exact minimal encoding.

Generator: token sequences from the documented grammar (names with/without OP_, OP_xNN, canonical decimals over int64,
hex literals with/without 0x of every length incl. all 1-2 byte strings exhaustively, brackets to depth 8 with
whitespace/comment variants). Oracle: vf.ref.asm_model (token -> bytes), then decode the tool's output with the reference
decoder: it must be exactly that operation sequence and every push must satisfy the reference minimal-push predicate.
Observation: harness `asm` (Value::parse_args + Value::serialize, btcc's main) and the real btcc binary for a sample."""
from hypothesis import strategies as st

from .. import cli, core
from ..core import Violation
from ..harness import Harness, kvline
from ..ref import asm_model as A, script as R
from ..ref.opcodes import NAMES, ALIASES

PID = 'C07'
RULE = ('token sequences from the btcc grammar; non-trivial = contains a hex literal of <= 4 bytes that is not the canonical encoding of a number, or a bracket of depth >= 2, or a '
        'decimal needing >= 5 bytes, or an OP_xNN escape, or a bracket body shorter than 5 bytes; distinct = the rendered argv')

_H = {}


def harness():
    if 'h' not in _H:
        _H['h'] = Harness('plain')
    return _H['h']


NAME_OPS = sorted((op, n) for op, n in NAMES.items() if op not in (0x4c, 0x4d, 0x4e)) + [(0x00, 'OP_FALSE'), (0x51, 'OP_TRUE')]

int_edges = []
for k in range(0, 64):
    for d in (-1, 0, 1):
        v = (1 << k) + d
        if -(1 << 63) <= v < (1 << 63):
            int_edges += [v, -v]
int_edges = sorted(set(x for x in int_edges if -(1 << 63) <= x < (1 << 63))) + [-(1 << 63)]

ints = st.one_of(st.integers(-1, 17), st.sampled_from(int_edges), st.integers(-(1 << 63), (1 << 63) - 1), st.integers(-70000, 70000))


@st.composite
def name_tok(draw):
    op, n = draw(st.sampled_from(NAME_OPS))
    form = draw(st.integers(0, 9))
    if form < 5:
        return ('op', n, op)
    if form < 8:
        return ('op', n[3:], op)           # without the OP_ prefix
    x = draw(st.integers(0x4f, 0xff)) if form == 8 else op
    if x == 0xff and core.kf_active('C07-xff'):
        # known finding: 0xff collides with the OP_INVALIDOPCODE sentinel of GetOpCode; excluded by construction, probed once per run in w_xff
        x = 0xfe
    return ('op', ('OP_x%02x' if draw(st.booleans()) else 'x%02x') % x, x)


def is_canonical_decimal(s):
    """what the tools read as an integer literal: the canonical decimal spelling of an int64 (a digit string beyond that range is not a number)"""
    try:
        return str(int(s)) == s and -2 ** 63 <= int(s) < 2 ** 63
    except ValueError:
        return False


@st.composite
def hex_tok(draw):
    k = draw(st.integers(0, 9))
    if k < 4:
        b = draw(st.binary(min_size=1, max_size=4))
    elif k < 6 and draw(st.integers(0, 3)) == 0:
        # literals whose text begins like the prefix of another notation when written without 0x: 0b.. (bit strings elsewhere), 0e.., 0d.., 0a..
        lead = draw(st.sampled_from([0x0b, 0x0b, 0x0b, 0x0e, 0x0d, 0x0a, 0x0c, 0x0f]))
        b = bytes([lead]) + draw(st.one_of(st.just(b''), st.sampled_from([b'\x10', b'\x01', b'\x01\xff', b'\x11\x01']), st.binary(min_size=19, max_size=19), st.binary(min_size=0, max_size=6)))
    elif k < 6:
        b = draw(st.sampled_from([b'\x00', b'\x80', b'\x01', b'\x10', b'\x11', b'\x81', b'\x00\x00', b'\x01\x00', b'\x00\x80', b'\xff\x00', b'\xff\x80', b'\x7f', b'\xff',
                                  b'\x00\x00\x00\x80', b'\x00\x00\x00\x00', b'\x01\x00\x00\x00', b'']))
    elif k < 8:
        n = draw(st.sampled_from([5, 20, 32, 33, 64, 65, 74, 75, 76, 77, 254, 255, 256, 257, 519, 520, 521, 600]))
        b = draw(st.binary(min_size=n, max_size=n))
    elif k < 9:
        b = draw(st.binary(min_size=0, max_size=80))
    else:
        # ambiguous digit-only strings: every nibble is a decimal digit. Up to 9 bytes they read as int64 decimals unless they start with 0
        # (then the generator falls back to 0x); from 10 bytes (20 digits) on they are beyond int64 and are bytes again
        n = draw(st.sampled_from([1, 2, 3, 4, 5, 8, 9, 10, 10, 10, 11, 16, 20, 32, 32, 33, 40, 64, 65, 80]))
        b = bytes(draw(st.integers(0, 9)) * 16 + draw(st.integers(0, 9)) for _ in range(n))
        if draw(st.booleans()) and b[0] < 0x10:
            b = bytes([b[0] + 0x10]) + b[1:]
        return ('hex', b, '0x' if is_canonical_decimal(b.hex()) or draw(st.integers(0, 5)) == 0 else '', False)
    prefix = draw(st.sampled_from(['0x', '0x', '']))
    upper = draw(st.integers(0, 4)) == 0
    text = b.hex().upper() if upper else b.hex()
    if prefix == '':
        # a bare literal must not be readable as something else: canonical decimal, opcode name, empty
        if not b or is_canonical_decimal(text) or ('OP_' + text) in A.BY_NAME or text.startswith('x') or text[0] == '-':
            prefix = '0x'
    return ('hex', b, prefix, upper)


# separators between the tokens of a bracketed script: blanks, line ends, comments (a comment runs from '#' to the end of the line, wherever the '#' stands -
# also glued to the token or the closing bracket before it - and its text is free: brackets in it are text), and nothing at all after a closing bracket
SEPS = [' ', ' ', ' ', '  ', '\t', '\n', ' \n ', ' # a comment\n', '\r\n', '# glued comment\n', ' # see [1] or ]x[ [[\n', '#]\n', 'ADJ', ' #\n']


def tokens(depth):
    base = st.one_of(name_tok(), name_tok(), ints.map(lambda n: ('int', n)), hex_tok(), hex_tok())
    if depth <= 0:
        return base

    @st.composite
    def br(draw):
        body = draw(st.lists(tokens(depth - 1), min_size=0, max_size=4))
        seps = [draw(st.sampled_from(SEPS)) for _ in range(3)]
        return ('br', body, seps)
    return st.one_of(base, base, base, br())


def depth_of(t):
    return 0 if t[0] != 'br' else 1 + max([depth_of(x) for x in t[1]] + [0])


def classify(toks):
    cls = set()

    def walk(t):
        if t[0] == 'hex' and len(t[1]) <= 4 and R.num_enc(R.num_dec(t[1], False, 4)) != t[1]:
            cls.add('short-noncanonical-hex')
        if t[0] == 'hex' and len(t[1]) > 75:
            cls.add('long-hex')
        if t[0] == 'hex' and t[2] == '' and t[1].hex().isdigit():
            cls.add('bare-digit-only-hex' + ('-beyond-int64' if len(t[1]) >= 10 else ''))
        if t[0] == 'int' and len(R.num_enc(t[1])) >= 5:
            cls.add('big-decimal')
        if t[0] == 'op' and 'x' in t[1][:4].lower() and t[1].lstrip('OP_')[:1] == 'x':
            cls.add('xNN')
        if t[0] == 'br':
            if depth_of(t) >= 2:
                cls.add('depth>=2')
            if len(A.compile_tokens(t[1])) < 5:
                cls.add('short-bracket-body')
            for x in t[1]:
                walk(x)
    for t in toks:
        walk(t)
    return cls


def has_raw_push_opcode(toks):
    for t in toks:
        if t[0] == 'op' and 0x01 <= t[2] <= 0x4e:
            return True
        if t[0] == 'br' and has_raw_push_opcode(t[1]):
            return True
    return False


def norm_ops(seq):
    out = []
    for s in seq:
        if s[0] == 'op' and (s[1] == 0x4f or 0x51 <= s[1] <= 0x60):
            out.append(('push', R.num_enc(s[1] - 0x50)))
        elif s[0] == 'op' and s[1] == 0:
            out.append(('push', b''))
        else:
            out.append((s[0], s[1]))
    return out


def case_json(toks):
    return dict(argv=[A.render(t) for t in toks])


def check_tokens(toks, ctx, real=False):
    argv = [A.render(t) for t in toks]
    want = A.compile_tokens(toks)
    cls = classify(toks)
    ctx.case('\x00'.join(argv), bool(cls), dict(argv=argv, expected=want.hex() if len(want) < 200 else want[:60].hex() + '...'), ','.join(sorted(cls)) or 'plain')
    for c in cls:
        ctx.count(c)
    if not argv:
        return
    # self-check of the model against the statement: output decodes to the operation sequence, all pushes minimal
    if not has_raw_push_opcode(toks):
        dec = A.decoded_ops(want)
        assert dec is not None and [(d[0], d[1]) for d in dec] == norm_ops(A.ops_of(toks)), 'model self-check'
        for d in dec:
            if d[0] == 'push':
                assert R.minimal_push(d[1], d[2] if d[2] <= 0x4e else None) or d[2] > 0x4e, 'model minimal-push self-check'
    if real:
        r = cli.run(cli.binpath('btcc'), argv)
        if r.timed_out:
            ctx.inconclusive += 1
            return
        if r.abnormal or r.rc != 0:
            raise Violation(toks, 'btcc terminated abnormally / non-zero on grammar-valid tokens: %r' % r, observed=repr(r))
        got = r.out.decode().strip()
        ctx.count('real-btcc')
    else:
        g = harness().req(kvline('asm', args=','.join(a.encode().hex() for a in argv)))
        if 'timeout' in g:
            ctx.inconclusive += 1
            return
        if 'hex' not in g:
            raise Violation(toks, 'assembler failed on grammar-valid tokens: %r' % g, observed=g)
        got = g['hex']
    # the same token sequence with every bracketed group split at its blanks into separate arguments (what an unquoted shell
    # command line or the REPL's word splitting produces) must assemble to the same bytes
    if not real and any(a.startswith('[') for a in argv) and all(('\t' not in a and '\n' not in a and '#' not in a and '\r' not in a) for a in argv):
        split = []
        for a in argv:
            split += [x for x in a.split(' ') if x] if a.startswith('[') else [a]
        if split != argv:
            g2 = harness().req(kvline('asm', args=','.join(a.encode().hex() for a in split)))
            ctx.count('split-bracket-delivery')
            if g2.get('hex') != got:
                raise Violation(toks, 'bracketed group split over several arguments assembles differently: %s vs %s' % (str(g2.get('hex', g2))[:80], got[:80]), observed=str(g2)[:300], expected=got[:300])
    if got != want.hex():
        # locate the first differing token for the report
        why = 'assembled bytes differ from the minimal encoding'
        for t in toks:
            single = harness().req(kvline('asm', args=A.render(t).encode().hex()))
            if single.get('hex') != A.compile_token(t).hex():
                why = 'token %r assembles to %s, the minimal encoding is %s' % (A.render(t)[:80], single.get('hex', '?')[:80], A.compile_token(t).hex()[:80])
                kf = known_class(t)
                break
        raise Violation(toks, why, observed=got[:400], expected=want.hex()[:400])


def known_class(t):
    return None


def w_tokens(ctx, wid, seed, examples, real=False):
    strat = st.lists(tokens(3), min_size=1, max_size=12)
    core.hyp_campaign(ctx, 'tokens' + ('-real' if real else ''), strat, (lambda c, x: check_tokens(c, x, real=real)), examples, seed, case_json)


def w_deep(ctx, wid, seed, examples):
    strat = st.lists(tokens(8), min_size=1, max_size=3)
    core.hyp_campaign(ctx, 'deep', strat, check_tokens, examples, seed, case_json)


def w_exhaustive_hex(ctx, wid, seed, lo, hi, two):
    """all 1-byte (two=False) / 2-byte literals in [lo, hi), in both spellings and inside a bracket"""
    for x in range(lo, hi):
        b = bytes([x]) if not two else bytes([x >> 8, x & 0xff])
        for prefix in ('0x', ''):
            text = b.hex()
            if prefix == '' and (is_canonical_decimal(text) or ('OP_' + text) in A.BY_NAME):
                continue
            t = ('hex', b, prefix, False)
            for toks in ([t], [('br', [t], [' '])], [('op', 'OP_DUP', 0x76), t]):
                try:
                    check_tokens(toks, ctx)
                except Violation as v:
                    if len(ctx.violations) < 1:
                        ctx.violations.append(dict(campaign='exhaustive-hex', why=v.why, case=case_json(toks), observed=v.observed, expected=v.expected, refails=3))
                    return


def w_xff(ctx, wid, seed):
    """probe of the known finding C07-xff (reported as KNOWN-FINDING while listed; a violation otherwise)"""
    for text in ('OP_xff', 'xff', 'OP_xFF'):
        toks = [('op', text, 0xff)]
        try:
            check_tokens(toks, ctx)
        except Violation as v:
            if core.kf_active('C07-xff'):
                ctx.known_hit('C07-xff', case_json(toks))
                ctx.excluded['OP_xff tokens'] += 1
            else:
                ctx.violations.append(dict(campaign='xff', why=v.why, case=case_json(toks), observed=v.observed, expected=v.expected, refails=3))
                return


def w_huge(ctx, wid, seed):
    """the widths of the push that carries a compiled sub-script: bodies of 75 / 76, 255 / 256 and 65535 / 65536 bytes and beyond (direct push, PUSHDATA1,
    PUSHDATA2, PUSHDATA4) - the last one needs about a hundred 520-byte literals inside one bracket, given as one argument where it fits and split over
    arguments (`[lit` `lit` ... `lit]`) otherwise"""
    import random
    rnd = random.Random(seed)
    for target in (75, 76, 255, 256, 65535, 65536, 65537, 70000):
        lits = []
        size = 0
        while size < target:
            room = target - size
            n = min(520, room - 3) if room > 80 else max(1, room - (2 if room > 77 else 1))
            if n >= 256 and room - (n + 3) in (1,):
                n -= 5
            if n < 1:
                break
            b = bytes(rnd.getrandbits(8) | 0x20 for _ in range(n))          # (no byte of a one-byte literal is a small number)
            lits.append(b)
            size += len(A.minimal_push(b))
        body = b''.join(A.minimal_push(b) for b in lits)
        want = A.minimal_push(body).hex()
        texts = ['0x' + b.hex() for b in lits]
        forms = [('split', ['[' + texts[0]] + texts[1:-1] + [texts[-1] + ']'] if len(texts) > 1 else ['[' + texts[0] + ']'])]
        one = '[' + ' '.join(texts) + ']'
        if len(one) < 120000:
            forms.append(('one-argument', [one]))
        for form, argv in forms:
            case = dict(kind='huge-bracket', body_bytes=len(body), form=form, literals=len(lits))
            ctx.case('huge:%d:%s' % (len(body), form), True, case, 'sub-script-push-width:%d' % (1 if len(body) < 76 else (2 if len(body) < 256 else (3 if len(body) < 65536 else 5))))
            g = harness().req(kvline('asm', args=','.join(a.encode().hex() for a in argv)))
            if g.get('hex') != want:
                got = g.get('hex', str(g))
                ctx.violations.append(dict(campaign='huge', why='a bracketed sub-script whose body has %d bytes (%s) assembles to %s..., the push of the body starts %s' % (len(body), form, got[:12], want[:12]),
                                           case=case, observed=got[:40], expected=want[:40], refails=3))
                return


def run(tier, t0):
    W = core.WORKERS
    n = 2500 if tier == 'quick' else 40000
    tasks = [(w_tokens, dict(examples=n)) for _ in range(W)]
    tasks += [(w_deep, dict(examples=n // 4)) for _ in range(max(2, W // 4))]
    tasks += [(w_tokens, dict(examples=150 if tier == 'quick' else 4000, real=True)) for _ in range(max(2, W // 4))]
    tasks += [(w_exhaustive_hex, dict(lo=0, hi=256, two=False)), (w_xff, dict()), (w_huge, dict())]
    step = 65536 // 16
    tasks += [(w_exhaustive_hex, dict(lo=i * step, hi=(i + 1) * step, two=True)) for i in range(16)]
    m = core.parallel(PID, tasks)
    return core.finish(PID, tier, m, RULE, t0, min_nontrivial=5000, extra=dict(exhaustive_hex='all 256 one-byte and all 65536 two-byte literals, with and without 0x, alone / inside a bracket / after another token'),
                       assumptions=['token -> bytes model vf/ref/asm_model.py written from the documented grammar and the minimal-push rule', 'bracketed sub-scripts are passed as one argv element (the documented, quoted form)'])


def toks_from_json(argv):
    raise NotImplementedError


def replay(rec):
    if rec['case'].get('kind') == 'huge-bracket':
        ctx = core.Ctx(PID)
        w_huge(ctx, 0, 0)
        return (not ctx.violations), str(ctx.violations[:1])[:300]
    # replay by argv: re-run the real assembler and compare with the recorded expectation
    argv = rec['case']['argv']
    g = Harness('plain').req(kvline('asm', args=','.join(a.encode().hex() for a in argv)))
    exp = rec.get('expected')
    ok = g.get('hex', '')[:400] == exp
    return ok, 'argv %r -> %s, expected %s' % (argv, g.get('hex', g)[:200], (exp or '')[:200])
