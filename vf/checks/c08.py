"""C08 - non-interactive btcdeb prints the final stack and never exits abnormally.

The real btcdeb binary (project build flags) is run with the script on stdin or in argv, with every combination of
pipe / pseudo-terminal for stdin and stdout that makes it non-interactive, under the quiet / debug options and DEBUG_*
environment variables. Oracle: the reference interpreter's outcome (success => exit 0 + final stack as lowercase hex, one
item per line, bottom to top; failure => exit 1 + the script error on stderr; never a signal), metamorphic equality across
the option variants, and agreement with interactive stepping (REPL sample)."""
import re

from hypothesis import strategies as st

from .. import cli, core
from ..core import Violation
from ..ref import script as R
from ..ref.script import F
from ..gen import scripts as G
from . import c01

PID = 'C08'
RULE = ('(script, stack, flag removals) as C01 (grammar-directed, operand-boundary incl. exception-raising operands) x delivery {stdin line, argv} x {stdin pipe+stdout pipe, stdin pipe+stdout tty, '
        'stdin tty+stdout pipe} x {none, --quiet, --debug=subset, DEBUG_* env}; non-trivial = the script executes >= 3 operations or fails with an exception-class error; distinct = hash of (case, mode, options)')
STD = sum(F[n] for n in R.FLAGS if n != 'SIGPUSHONLY')
REMOVABLE = ['MINIMALDATA', 'MINIMALIF', 'DISCOURAGE_UPGRADABLE_NOPS', 'CHECKLOCKTIMEVERIFY', 'CHECKSEQUENCEVERIFY', 'NULLDUMMY', 'NULLFAIL', 'STRICTENC', 'CLEANSTACK', 'P2SH']
DEBUG_AREAS = ['sighash', 'signing', 'segwit', 'taproot']


@st.composite
def cases(draw):
    kind = draw(st.integers(0, 10))
    if kind == 10:
        # pay-to-script-hash shaped script with the redeem script as the last stack ARGUMENT (the arguments must be in place when the session is set up)
        c = draw(c01.p2sh_shape_cases())
        script, stack = c['script'], c['stack']
    elif kind < 5:
        script, stack = draw(G.grammar_script(with_sig=False))
    elif kind < 9:
        c = draw(c01.operand_cases())
        script, stack = c['script'], c['stack']
    else:
        script, stack = draw(G.raw_script(max_len=40))
    removed = draw(st.lists(st.sampled_from(REMOVABLE), max_size=3, unique=True))
    mode = draw(st.sampled_from(['stdin', 'stdin', 'stdin-outtty', 'argv']))
    opt = draw(st.integers(0, 5))
    dbg = draw(st.lists(st.sampled_from(DEBUG_AREAS), min_size=1, max_size=4, unique=True))
    envs = draw(st.lists(st.tuples(st.sampled_from(['DEBUG_SIGHASH', 'DEBUG_SIGNING', 'DEBUG_SEGWIT', 'DEBUG_TAPROOT']), st.sampled_from(['0', '1'])), max_size=2))
    # textual delivery variants that must not change the result: blanks / CR around the script line, stack arguments written as inline expressions
    pad = draw(st.sampled_from(['', '', '', ' ', '  ', '\t', ' \r']))
    lead = draw(st.sampled_from(['', '', '', ' ', '\t']))
    spell = [draw(st.sampled_from(['0x', '0x', '0x', 'echo', 'reverse', 'bech32dec'])) for _ in stack]
    aslines = draw(st.sampled_from([None, None, '\n', ' \n', '\r\n', ' ', ' # note\n', ' # a [ bracket and OP_1 in a comment\n', '#x\r\n']))
    return dict(script=script, stack=stack, removed=removed, mode=mode, opt=opt, dbg=dbg, envs=envs, pad=pad, lead=lead, spell=spell, aslines=aslines)


def case_json(c):
    return dict(script=c['script'].hex(), stack=[x.hex() for x in c['stack']], removed=c['removed'], mode=c['mode'], opt=c['opt'], dbg=c['dbg'], envs=[list(e) for e in c['envs']],
                pad=c.get('pad', ''), lead=c.get('lead', ''), spell=c.get('spell'), aslines=c.get('aslines'))


def case_from_json(j):
    return dict(script=bytes.fromhex(j['script']), stack=[bytes.fromhex(x) for x in j['stack']], removed=j['removed'], mode=j['mode'], opt=j['opt'], dbg=j['dbg'], envs=[tuple(e) for e in j['envs']],
                pad=j.get('pad', ''), lead=j.get('lead', ''), spell=j.get('spell'), aslines=j.get('aslines'))


def spell_arg(x, how):
    """a stack argument as hex literal or as an inline expression that evaluates to the same bytes"""
    if how == 'echo' and len(x) > 4:
        return 'echo(0x%s)' % x.hex()
    if how == 'reverse' and len(x) > 4:
        return 'reverse(0x%s)' % x[::-1].hex()
    if how == 'bech32dec' and len(x) in (20, 32):
        from ..ref import bech32 as B32
        return 'bech32dec(%s)' % B32.segwit_encode('bc', 0, x)
    return '0x' + x.hex()


def invoke(c, mode=None, opt=None, variant='plain'):
    mode = mode or c['mode']
    opt = c['opt'] if opt is None else opt
    text = '0x' + c['script'].hex()
    if c.get('aslines') and mode != 'argv':
        # the same script as a bracketed token list with its tokens on separate lines (stdin carries the whole script, not its first line)
        toks = []
        pos = 0
        for e in R.decode(c['script']):
            if e is None:
                toks = None
                break
            op, data, nxt = e
            if op == 0xff:
                toks = None         # (the escape OP_xff is not assembled to the byte 0xff - known finding C07-xff; keep the hex form for such scripts)
                break
            if data is None or op == 0:
                toks.append('OP_x%02x' % op)
            elif len(data) >= 5 and R.push_enc(data) == c['script'][pos:nxt]:
                toks.append('0x' + data.hex())
            else:
                toks = None
                break
            pos = nxt
        if toks:
            sep = c['aslines']
            text = '[' + (sep[1:] if sep[0] in ' \n\r\t' else sep) + sep.join(toks) + sep + ']'
    args = []
    env = {}
    if opt == 1:
        args.append('--quiet')
    elif opt == 2:
        args.append('--debug=' + ','.join(c['dbg']))
    elif opt == 3:
        env = dict(c['envs'])
    elif opt == 4:
        args.append('-q')
        args.append('-D' + ','.join(c['dbg']))
    if c['removed']:
        args.append('--modify-flags=' + ','.join('-' + n for n in c['removed']))
    sp = c.get('spell') or ['0x'] * len(c['stack'])
    stackargs = [spell_arg(x, sp[i] if i < len(sp) else '0x') for i, x in enumerate(c['stack'])]
    exe = cli.binpath('btcdeb', variant)
    if mode == 'argv':
        return cli.run(exe, args + [text] + stackargs, stdin_tty=True, env=cli.base_env(env))
    return cli.run(exe, args + stackargs, stdin=(c.get('lead', '') + text + c.get('pad', '')).encode() + b'\n', stdout_tty=(mode == 'stdin-outtty'), env=cli.base_env(env))


def expected(c):
    flags = STD
    for n in c['removed']:
        flags &= ~F[n]
    if not R.has_valid_ops(c['script']):
        return ('refused', None, flags)
    trace, oc = R.run(c['script'], c['stack'], flags, R.BASE)
    if oc[0] == 'setup':
        return ('setup', R.ERR[oc[1]], flags)
    if oc[0] == 'ok':
        return ('ok', [x.hex() for x in oc[1]], flags, len(trace))
    if oc[0] == 'err':
        return ('err', R.ERR.get(oc[1], oc[1]), flags, len(trace))
    return ('exc', oc[1], flags, len(trace))


def check_result(c, r, exp, what):
    if r.timed_out:
        raise core.Inconclusive()
    ab = r.abnormal
    if ab:
        raise Violation(c, '%s: btcdeb terminated abnormally (%s) on a script-level failure' % (what, ab), observed=repr(r), expected=exp[:2])
    if exp[0] == 'ok':
        want = ''.join(x + '\n' for x in exp[1]).encode()
        if r.rc != 0 or r.out != want:
            raise Violation(c, '%s: expected exit 0 and the final stack %r' % (what, exp[1]), observed=[r.rc, r.out.decode(errors='replace')[-300:], r.err.decode(errors='replace')[-200:]], expected=[0, want.decode()])
    elif exp[0] == 'refused':
        if r.rc != 1 or b'invalid script' not in r.err:
            raise Violation(c, '%s: an undecodable script must be refused with exit 1' % what, observed=[r.rc, r.err.decode(errors='replace')[-200:]])
    elif exp[0] == 'setup':
        if r.rc != 1 or exp[1].encode() not in r.err:
            raise Violation(c, '%s: expected refusal %r' % (what, exp[1]), observed=[r.rc, r.err.decode(errors='replace')[-200:]])
    elif exp[0] == 'err':
        if r.rc != 1 or ('error: ' + exp[1]).encode() not in r.err:
            raise Violation(c, '%s: expected exit 1 and %r on stderr' % (what, 'error: ' + exp[1]), observed=[r.rc, r.err.decode(errors='replace')[-300:]], expected=[1, exp[1]])
    else:
        if r.rc != 1 or b'error' not in r.err.lower():
            raise Violation(c, '%s: a failure raised as an exception (%s) must be reported as an error with exit 1' % (what, exp[1]), observed=[r.rc, r.err.decode(errors='replace')[-300:]], expected=[1, 'error ...'])


def check_case(c, ctx):
    exp = expected(c)
    text_len = 2 + 2 * len(c['script'])
    if c['mode'] != 'argv' and text_len > 1000:
        c = dict(c, mode='argv')
    nontriv = (len(exp) > 3 and exp[3] >= 3) or exp[0] == 'exc'
    ctx.case(repr(case_json(c)), nontriv, dict(case_json(c), expected=exp[:2]), exp[0] + ':' + c['mode'])
    ctx.count('mode:' + c['mode'])
    ctx.count('opt:%d' % c['opt'])
    ctx.count('outcome:' + exp[0])
    try:
        r = invoke(c)
        check_result(c, r, exp, 'mode %s, option set %d' % (c['mode'], c['opt']))
        # metamorphic: another option variant / delivery gives the same stdout and status
        alt_opt = (c['opt'] + 1 + len(c['script'])) % 5
        alt_mode = {'stdin': 'argv', 'argv': 'stdin', 'stdin-outtty': 'stdin'}[c['mode']]
        if alt_mode != 'argv' and text_len > 1000:
            alt_mode = 'argv'
        r2 = invoke(c, mode=alt_mode, opt=alt_opt)
        check_result(c, r2, exp, 'mode %s, option set %d' % (alt_mode, alt_opt))
        if exp[0] == 'ok' and (r2.out != r.out or r2.rc != r.rc):
            raise Violation(c, 'result depends on delivery/options: %s/%d vs %s/%d' % (c['mode'], c['opt'], alt_mode, alt_opt), observed=[r.out.decode(), r2.out.decode()])
        # --verbose is refused in this mode
        if c['opt'] == 5:
            exe = cli.binpath('btcdeb')
            r3 = cli.run(exe, ['--verbose'], stdin=b'0x' + c['script'].hex().encode() + b'\n')
            if r3.timed_out:
                raise core.Inconclusive()
            if r3.rc != 1 or r3.out.strip() or r3.abnormal:
                raise Violation(c, '--verbose must be refused in non-interactive mode (exit 1, nothing executed)', observed=repr(r3))
            ctx.count('verbose-refused')
    except core.Inconclusive:
        ctx.inconclusive += 1


STACK_LINE = re.compile(r'^<\d+>\t([0-9a-f]*)')


def check_interactive(c, ctx):
    """interactive stepping reaches the same stack as the non-interactive run (successful cases)"""
    exp = expected(c)
    if exp[0] != 'ok':
        return
    n = exp[3]
    rp = cli.Repl(['0x' + c['script'].hex()] + ['0x' + x.hex() for x in c['stack']] + (['--modify-flags=' + ','.join('-' + x for x in c['removed'])] if c['removed'] else []))
    blocks, err, status = rp.session(['step'] * n + ['stack'], timeout=20)
    if status != 'ok':
        ctx.inconclusive += 1
        return
    lines = [l for l in blocks[-2].splitlines() if l.strip()]
    items = []
    for l in lines:
        m = STACK_LINE.match(l)
        if m:
            items.append(m.group(1))
    items.reverse()
    ctx.case('repl' + repr(case_json(c)), n >= 3, dict(case_json(c), interactive_stack=items), 'interactive')
    ctx.count('interactive-sessions')
    if items != exp[1]:
        raise Violation(c, 'interactive stepping ends with stack %r, the non-interactive result / reference is %r' % (items, exp[1]), observed=items, expected=exp[1])


def w_cli(ctx, wid, seed, examples):
    core.hyp_campaign(ctx, 'cli', cases(), check_case, examples, seed, case_json)


def w_repl(ctx, wid, seed, examples):
    core.hyp_campaign(ctx, 'repl', cases(), check_interactive, examples, seed, case_json)


@st.composite
def long_line_cases(draw):
    """script text lengths around the 1023-byte stdin line buffer"""
    n = draw(st.sampled_from([505, 508, 509, 510, 511, 512, 513, 520, 600, 1000]))
    body = (b'\x51\x75' * (n // 2))[:n - 1] + b'\x52'
    if len(body) % 2 == 0 and body[-2:] == b'\x75\x52':
        pass
    return dict(script=bytes(body), stack=[], removed=draw(st.sampled_from([[], ['CLEANSTACK']])), mode='stdin', opt=0, dbg=['segwit'], envs=[])


def check_long(c, ctx):
    exp = expected(c)
    ctx.case(repr(case_json(c)), True, dict(script_len=len(c['script']), text_len=2 + 2 * len(c['script']), expected=exp[:2]), 'stdin-line-length')
    try:
        r = invoke(c, mode='stdin', opt=0)
        check_result(c, r, exp, 'script of %d bytes (%d characters) on stdin' % (len(c['script']), 2 + 2 * len(c['script'])))
    except core.Inconclusive:
        ctx.inconclusive += 1


def w_long(ctx, wid, seed, examples):
    core.hyp_campaign(ctx, 'stdin-line-length', long_line_cases(), check_long, examples, seed, case_json)


# ---- spend sessions (signature hashing happens): the result must not depend on delivery or on the debug options either
@st.composite
def spend_cli_cases(draw):
    from ..gen import spends as S
    rnd = draw(st.randoms(use_true_random=False))
    typ = draw(st.sampled_from(['p2pkh', 'p2sh-multisig', 'p2wpkh', 'p2wsh', 'p2sh-p2wpkh', 'p2tr-key', 'p2tr-script', 'multisig']))
    c = S.build(rnd, typ, ninputs=1 if typ.startswith('p2tr') else None)
    corr = S.corrupt(c, draw(st.sampled_from(['none', 'none', 'none', 'sigbit', 'output'])), rnd)
    if c['meta'].get('leafkind') == 'unknown-leaf-version':
        corr = 'unknown-leaf-version'      # invalid under the standard flags (and refused by the tool)
    areas = draw(st.lists(st.sampled_from(DEBUG_AREAS), min_size=1, max_size=4, unique=True))
    return dict(tx=c['tx'].ser().hex(), txin=c['fund'].ser().hex(), type=typ, corr=corr, areas=areas)


def spend_invoke(c, variant):
    exe = cli.binpath('btcdeb')
    base = ['--tx=' + c['tx'], '--txin=' + c['txin']]
    if variant == 'pipe':
        return cli.run(exe, base, stdin=b'\n')
    if variant == 'pipe-quiet':
        return cli.run(exe, ['--quiet'] + base, stdin=b'\n')
    if variant == 'tty-debug':
        return cli.run(exe, ['--debug=' + ','.join(c['areas'])] + base, stdin_tty=True)
    if variant == 'tty-env':
        return cli.run(exe, base, stdin_tty=True, env=cli.base_env({'DEBUG_' + a.upper(): '1' for a in c['areas']}))
    if variant == 'outtty-debug':
        return cli.run(exe, ['--debug=' + ','.join(c['areas'])] + base, stdin=b'\n', stdout_tty=True)
    raise ValueError(variant)


def check_spend_cli(c, ctx):
    ctx.case(repr(c), True, dict(type=c['type'], corruption=c['corr'], debug_areas=c['areas']), 'spend:' + c['type'])
    try:
        ref = spend_invoke(c, 'pipe')
        if ref.timed_out:
            raise core.Inconclusive()
        if ref.abnormal:
            raise Violation(c, 'spend session terminated abnormally (%s)' % ref.abnormal, observed=repr(ref))
        for v in ('pipe-quiet', 'tty-debug', 'tty-env', 'outtty-debug'):
            r = spend_invoke(c, v)
            if r.timed_out:
                raise core.Inconclusive()
            if r.abnormal:
                raise Violation(c, 'spend session terminated abnormally (%s) in variant %s' % (r.abnormal, v), observed=repr(r))
            ctx.count('spend-variant:' + v)
            if r.rc != ref.rc or (ref.rc == 0 and r.out != ref.out):
                raise Violation(c, 'the reported result of a %s spend depends on delivery / debug options (%s with %s): exit %s stdout %r vs exit %s stdout %r' % (
                    c['type'], v, c['areas'], r.rc, r.out[:120], ref.rc, ref.out[:120]), observed=[r.rc, r.out.decode(errors='replace')[:300]], expected=[ref.rc, ref.out.decode(errors='replace')[:300]])
        if c['corr'] == 'none' and (ref.rc != 0 or ref.out.strip().splitlines()[-1:] != [b'01']):
            raise Violation(c, 'a valid %s spend does not end with exit 0 and the stack 01' % c['type'], observed=[ref.rc, ref.out[-100:], ref.err[-200:]])
    except core.Inconclusive:
        ctx.inconclusive += 1


def w_spend_cli(ctx, wid, seed, examples):
    core.hyp_campaign(ctx, 'spend-cli', spend_cli_cases(), check_spend_cli, examples, seed, lambda c: c)


def w_zoption(ctx, wid, seed):
    """the option -z / --allow-disabled-opcodes reaches the non-interactive run too (the 15 re-enabled opcodes, script on stdin and as argument; without
    the option the run ends with the disabled-opcode error): the directed sample of C17, counted here as well"""
    from . import c17
    c17.w_cli(ctx, wid, seed)
    for v in ctx.violations:
        v['campaign'] = 'zoption'


def run(tier, t0):
    W = core.WORKERS
    n = 600 if tier == "quick" else 8000
    tasks = [(w_zoption, dict())] + [(w_cli, dict(examples=n)) for _ in range(W)] + [(w_repl, dict(examples=max(10, n // 12))) for _ in range(max(2, W // 4))] + [(w_long, dict(examples=30))] + [(w_spend_cli, dict(examples=max(25, n // 10))) for _ in range(max(2, W // 4))]
    m = core.parallel(PID, tasks)
    return core.finish(PID, tier, m, RULE, t0, min_nontrivial=500 if tier == 'quick' else 20000,
                       assumptions=['reference interpreter for the expected outcome', 'scripts are passed as 0x<hex> and stack items as 0x<hex> (forms that cannot be mistaken for options or numbers)',
                                    'for exception-class failures only "exit 1 and a non-empty error report" is demanded, no particular text'])


def replay(rec):
    if rec.get('campaign') == 'zoption':
        ctx = core.Ctx(PID)
        w_zoption(ctx, 0, 0)
        return (not ctx.violations), str(ctx.violations[:1])
    if rec.get('campaign') == 'spend-cli':
        try:
            check_spend_cli(rec['case'], core.Ctx(PID))
        except Violation as v:
            return False, 'still failing: %s' % v.why
        return True, 'ok'
    c = case_from_json(rec['case'])
    ctx = core.Ctx(PID)
    try:
        if rec.get('campaign') == 'repl':
            check_interactive(c, ctx)
        elif rec.get('campaign') == 'stdin-line-length':
            check_long(c, ctx)
        elif rec.get('campaign') == 'spend-cli':
            check_spend_cli(rec['case'], ctx)
            return True, 'ok'
        else:
            check_case(c, ctx)
    except Violation as v:
        return False, 'still failing: %s\n  expected %r\n  observed %r' % (v.why, v.expected, v.observed)
    return True, 'ok'
