"""C09 - flag modification is exact and verification flags only ever restrict.

D1 exactness: generated --modify-flags lists (every single +X/-X, subsets, duplicates, both orders, all 21) -> expected set =
the standard set (written out here, not read from the tree) with the modifications applied left to right; observed set = the
'resulting flags:' listing of `btcdeb -v -f...` on two ptys, `--default-flags`, and behavioural probes (a script whose outcome
depends on exactly one flag, run non-interactively under the list). Malformed lists must be rejected (exit 1, diagnostic, no run).
D2 monotonicity: generated scripts/stacks/versions under chains A0 <= A1 <= ... of flag sets; success under B implies success under A."""
from hypothesis import strategies as st

from .. import cli, core
from ..core import Violation
from ..harness import Harness, kvline
from ..ref import script as R, secp
from ..ref.script import F, FLAGS
from ..gen import scripts as G
from . import c01

PID = 'C09'
RULE = ('D1: +/- flag lists over the 21 names (singles, subsets, duplicates, both orders, all) and malformed lists; non-trivial = the list changes the standard set or is malformed. '
        'D2: (script, stack, version, chain of 2-6 flag sets ordered by inclusion); non-trivial = the outcome differs somewhere along the chain (otherwise the implication is vacuous). distinct = hash of the case')
STANDARD_NAMES = ['P2SH', 'DERSIG', 'STRICTENC', 'MINIMALDATA', 'NULLDUMMY', 'DISCOURAGE_UPGRADABLE_NOPS', 'CLEANSTACK', 'MINIMALIF', 'NULLFAIL', 'CHECKLOCKTIMEVERIFY',
                  'CHECKSEQUENCEVERIFY', 'LOW_S', 'WITNESS', 'DISCOURAGE_UPGRADABLE_WITNESS_PROGRAM', 'WITNESS_PUBKEYTYPE', 'CONST_SCRIPTCODE', 'TAPROOT',
                  'DISCOURAGE_UPGRADABLE_TAPROOT_VERSION', 'DISCOURAGE_OP_SUCCESS', 'DISCOURAGE_UPGRADABLE_PUBKEYTYPE']   # Core's STANDARD_SCRIPT_VERIFY_FLAGS
assert len(STANDARD_NAMES) == 20 and 'SIGPUSHONLY' not in STANDARD_NAMES
_H = {}


def harness():
    if 'h' not in _H:
        _H['h'] = Harness('plain')
    return _H['h']


def apply_mods(mods):
    s = set(STANDARD_NAMES)
    for sign, name in mods:
        if sign == '+':
            s.add(name)
        else:
            s.discard(name)
    return s


def mods_text(mods):
    return ','.join(s + n for s, n in mods)


@st.composite
def modlists(draw):
    k = draw(st.integers(0, 6))
    if k == 0:
        return [(draw(st.sampled_from('+-')), draw(st.sampled_from(FLAGS)))]
    if k == 1:
        n = draw(st.sampled_from(FLAGS))
        return [('+', n), ('-', n)] if draw(st.booleans()) else [('-', n), ('+', n)]
    if k == 2:
        return [('-', n) for n in FLAGS] if draw(st.booleans()) else [('+', n) for n in FLAGS]
    if k == 3:
        n = draw(st.sampled_from(FLAGS))
        s = draw(st.sampled_from('+-'))
        return [(s, n)] * draw(st.integers(2, 3))
    return draw(st.lists(st.tuples(st.sampled_from('+-'), st.sampled_from(FLAGS)), min_size=1, max_size=8))


def parse_listing(err):
    """the bullet list after 'resulting flags:'"""
    lines = err.splitlines()
    out = None
    for l in lines:
        if l.startswith('resulting flags:'):
            out = set()
            continue
        if out is not None:
            t = l.strip()
            if t.startswith('・'):
                name = t[1:].strip()
                if name != '(none)':
                    out.add(name)
            else:
                break
    return out


DER_R1S1 = bytes.fromhex('3006020101020101')
HIGH_S = b'\x30\x26\x02\x01\x01\x02\x21\x00' + (secp.N - 1).to_bytes(32, 'big')
KEY = bytes([2]) + bytes(range(1, 33))


def P(d):
    return G.push(d, 1)


# flag -> (script, stack, flags that must be off for the probe to isolate it, outcome-with, outcome-without)
# outcomes: ('err', text) or ('ok', [stack hex])
PROBES = {
    'MINIMALDATA': (bytes([0x4c, 0x01, 0x07]), [], [], ('err', R.ERR['MINIMALDATA']), ('ok', ['07'])),
    'DISCOURAGE_UPGRADABLE_NOPS': (bytes([0xb0, 0x51]), [], [], ('err', R.ERR['DISCOURAGE_UPGRADABLE_NOPS']), ('ok', ['01'])),
    'CHECKLOCKTIMEVERIFY': (bytes([0x51, 0xb1]), [], [], ('err', R.ERR['UNSATISFIED_LOCKTIME']), ('ok', ['01'])),
    'CHECKSEQUENCEVERIFY': (bytes([0x51, 0xb2]), [], [], ('err', R.ERR['UNSATISFIED_LOCKTIME']), ('ok', ['01'])),
    'NULLDUMMY': (bytes([0x51, 0x00, 0x00, 0xae]), [], [], ('err', R.ERR['SIG_NULLDUMMY']), ('ok', ['01'])),
    'P2SH': (b'\xa9\x14' + R.ripemd(R.sha256(b'\x52\x53')) + b'\x87', [b'\x52\x53'], [], ('ok', ['02', '03']), ('ok', ['01'])),
    'DERSIG': (b'\xac', [b'\x01\x01', KEY], ['STRICTENC', 'LOW_S', 'NULLFAIL'], ('err', R.ERR['SIG_DER']), ('ok', [''])),
    'LOW_S': (b'\xac', [HIGH_S + b'\x01', KEY], ['NULLFAIL'], ('err', R.ERR['SIG_HIGH_S']), ('ok', [''])),
    'STRICTENC': (b'\xac', [DER_R1S1 + b'\x04', KEY], ['NULLFAIL'], ('err', R.ERR['SIG_HASHTYPE']), ('ok', [''])),
    'NULLFAIL': (b'\xac', [DER_R1S1 + b'\x01', KEY], [], ('err', R.ERR['SIG_NULLFAIL']), ('ok', [''])),
    'CONST_SCRIPTCODE': (bytes([0xab, 0x51]), [], [], ('err', R.ERR['OP_CODESEPARATOR']), ('ok', ['01'])),
}


def run_probe(flagname, mods):
    script, stack, off, with_, without = PROBES[flagname]
    r = cli.run(cli.binpath('btcdeb'), ['--modify-flags=' + mods_text(mods)] + ['0x' + x.hex() for x in stack], stdin=b'0x' + script.hex().encode() + b'\n')
    return r


def check_exact(mods, ctx):
    want = apply_mods(mods)
    text = mods_text(mods)
    nontriv = want != set(STANDARD_NAMES) or len(mods) > 1
    ctx.case('exact:' + text, nontriv, dict(list=text, expected=sorted(want)), 'exactness')
    rp = cli.Repl(['-v', '-f' + text, '0x51'])
    blocks, err, status = rp.session([], timeout=10)
    if status != 'ok':
        ctx.inconclusive += 1
        return
    got = parse_listing(err)
    if got is None:
        raise Violation(mods, 'no "resulting flags:" listing for --modify-flags=%s' % text, observed=err[-300:])
    if got != want:
        raise Violation(mods, '--modify-flags=%s yields %s, expected the standard set with the modifications applied: missing %s, extra %s' % (text, sorted(got), sorted(want - got), sorted(got - want)),
                        observed=sorted(got), expected=sorted(want))
    ctx.count('listing-checked')
    # behavioural probes for the flags that have an effect in a stepping session
    for fname in PROBES:
        script, stack, off, with_, without = PROBES[fname]
        eff = [m for m in mods if m[1] not in off] + [('-', o) for o in off]
        effset = apply_mods(eff)
        exp = with_ if fname in effset else without
        r = run_probe(fname, eff)
        if r.timed_out:
            ctx.inconclusive += 1
            continue
        ctx.count('probe:' + fname + (':on' if fname in effset else ':off'))
        if exp[0] == 'err':
            ok = r.rc == 1 and ('error: ' + exp[1]).encode() in r.err
        else:
            ok = r.rc == 0 and r.out == ''.join(x + '\n' for x in exp[1]).encode()
        if not ok:
            raise Violation(mods, 'behavioural probe for %s under --modify-flags=%s: the flag should be %s, expected %r' % (fname, mods_text(eff), 'on' if fname in effset else 'off', exp),
                            observed=[r.rc, r.out.decode(errors='replace')[-100:], r.err.decode(errors='replace')[-200:]], expected=exp)


MALFORMED = ['P2SH', 'p2sh', '+p2sh', '+P2SHH', '+P2S', '+', '-', ',', '+P2SH,', ',+P2SH', '+P2SH,,-DERSIG', '+P2SH -DERSIG', '*P2SH', '+MINIMAL_DATA', '+SCRIPT_VERIFY_P2SH', '+P2SH;-DERSIG',
             '+' + 'A' * 126, '+' + 'A' * 127, '+' + 'A' * 128, '+' + 'A' * 200, '+P2SH,+' + 'B' * 300, '-' + 'P2SH' * 40]


# a flag modification that never reaches the flags because the option itself is misspelled / incomplete: running the script under the UNMODIFIED
# set instead would be the opposite of "the effective set is exactly the modified one" - it has to be refused like a malformed list
BAD_OPTIONS = [['--modify-flgs=-MINIMALDATA'], ['--modifyflags=-MINIMALDATA'], ['-F-MINIMALDATA'], ['--modify-flags'], ['-f'],
               # the option given twice: every +NAME / -NAME on the command line has to take effect (or the repetition is refused): not just the last list
               ['--modify-flags=-MINIMALDATA', '--modify-flags=-NULLDUMMY'], ['-f-MINIMALDATA', '-f+SIGPUSHONLY'], ['--modify-flags=-NO_SUCH_FLAG', '--modify-flags=-MINIMALDATA']]


def check_malformed(text, ctx):
    ctx.case('malformed:' + repr(text), True, dict(list=text[:80], length=len(text)) if isinstance(text, str) else dict(argv=text), 'malformed')
    r = cli.run(cli.binpath('btcdeb'), ['--modify-flags=' + text] if isinstance(text, str) else list(text), stdin=b'0x4c0107\n')
    if r.timed_out:
        ctx.inconclusive += 1
        return
    if r.abnormal:
        raise Violation(text, 'malformed flag list (%d chars) makes btcdeb terminate abnormally: %s' % (len(text), r.abnormal), observed=repr(r))
    if r.rc != 1 or not r.err.strip() or r.out.strip():
        raise Violation(text, 'malformed flag list / option %r must be rejected with a diagnostic and exit 1, nothing executed' % (text[:60],), observed=[r.rc, r.out.decode(errors='replace')[-100:], r.err.decode(errors='replace')[-200:]])


def w_exact(ctx, wid, seed, examples):
    core.hyp_campaign(ctx, 'exactness', modlists(), check_exact, examples, seed, lambda m: dict(list=mods_text(m), mods=[list(x) for x in m]))


def w_singles(ctx, wid, seed):
    for n in FLAGS:
        for s in '+-':
            try:
                check_exact([(s, n)], ctx)
            except Violation as v:
                ctx.violations.append(dict(campaign='singles', why=v.why, case=dict(list=s + n, mods=[[s, n]]), observed=v.observed, expected=v.expected, refails=3))
                return
    # --default-flags lists exactly the standard set
    r = cli.run(cli.binpath('btcdeb'), ['--default-flags'], stdin=b'')
    names = set(l.strip()[1:].strip() for l in r.out.decode(errors='replace').splitlines() if l.strip().startswith('・'))
    ctx.case('default-flags', True, dict(cmd='--default-flags', listed=sorted(names)), 'default-flags')
    if names != set(STANDARD_NAMES) or r.rc != 0:
        ctx.violations.append(dict(campaign='default-flags', why='--default-flags lists %s, the standard set is %s' % (sorted(names), sorted(STANDARD_NAMES)), case=dict(cmd='--default-flags'), refails=3))
    for t in MALFORMED + BAD_OPTIONS:
        try:
            check_malformed(t, ctx)
        except Violation as v:
            ctx.violations.append(dict(campaign='malformed', why=v.why, case=dict(malformed=t), observed=v.observed, refails=3))
            return


# ------------------------------------------------------------------ D2 monotonicity
@st.composite
def chains(draw):
    k = draw(st.integers(2, 6))
    names = draw(st.permutations(G.EXEC_FLAGS + G.OTHER_FLAGS[:8]))
    base = draw(G.flagsets()) if draw(st.booleans()) else 0
    sets = [base]
    cur = base
    i = 0
    for _ in range(k - 1):
        add = draw(st.integers(1, 3))
        for n in names[i:i + add]:
            cur |= F[n]
        i += add
        sets.append(cur)
    return sets


@st.composite
def mono_cases(draw):
    kind = draw(st.integers(0, 9))
    if kind < 6:
        script, stack = draw(G.grammar_script(with_sig=True))
    else:
        c = draw(c01.operand_cases())
        script, stack = c['script'], c['stack']
    return dict(script=script, stack=stack, sv=draw(st.sampled_from(G.SIGVERS)), chain=draw(chains()), tx=draw(c01.txctx))


def mono_json(c):
    return dict(script=c['script'].hex(), stack=[x.hex() for x in c['stack']], sv=c['sv'], chain=c['chain'], chain_names=[G.flag_names(f) for f in c['chain']], tx=c['tx'])


def check_mono(c, ctx):
    h = harness()
    if not R.has_valid_ops(c['script']):
        return
    res = []
    for fl in c['chain']:
        case = dict(script=c['script'], stack=c['stack'], flags=fl, sv=c['sv'], tx=c['tx'])
        g = h.req(c01.request(case, 'step').replace(' mode=step', ' mode=step trace=0'))
        if 'timeout' in g:
            ctx.inconclusive += 1
            return
        if 'crash' in g or 'exit' in g:
            raise Violation(c, 'harness died: %r' % g, observed=g)
        if 'refused' in g:
            return
        res.append((bool(g['ok']), g['err']))
    differs = len(set(r[0] for r in res)) > 1
    ctx.case(repr(mono_json(c)), differs, dict(mono_json(c), outcomes=[r[1] or 'ok' for r in res]), 'monotonicity')
    if differs:
        for i in range(len(res) - 1):
            if res[i][0] != res[i + 1][0]:
                added = [n for n in FLAGS if (c['chain'][i + 1] & ~c['chain'][i]) & F[n]]
                ctx.count('flag-made-the-difference:' + '+'.join(sorted(added))[:60])
    for i in range(len(res)):
        for j in range(i + 1, len(res)):
            if res[j][0] and not res[i][0]:
                raise Violation(c, 'succeeds under the larger flag set %s but fails (%s) under the subset %s: switching flags on made a failing execution succeed' % (
                    G.flag_names(c['chain'][j]), res[i][1], G.flag_names(c['chain'][i])), observed=[r[1] or 'ok' for r in res])


def w_mono(ctx, wid, seed, examples):
    core.hyp_campaign(ctx, 'monotonicity', mono_cases(), check_mono, examples, seed, mono_json)


def run(tier, t0):
    W = core.WORKERS
    ne, nm = (40, 1500) if tier == 'quick' else (1200, 60000)
    tasks = [(w_singles, dict())] + [(w_exact, dict(examples=ne)) for _ in range(max(4, W // 2))] + [(w_mono, dict(examples=nm)) for _ in range(W)]
    m = core.parallel(PID, tasks)
    return core.finish(PID, tier, m, RULE, t0, min_nontrivial=300 if tier == 'quick' else 10000,
                       assumptions=['the standard flag set is Core\'s STANDARD_SCRIPT_VERIFY_FLAGS as written in this module', 'the -v listing is read from stderr of an interactive session on ptys',
                                    'monotonicity is checked on "ran to the end without error" for plain scripts (spend sessions are covered under C03)'])


def replay(rec):
    c = rec['case']
    ctx = core.Ctx(PID)
    try:
        if 'mods' in c:
            check_exact([tuple(x) for x in c['mods']], ctx)
        elif 'malformed' in c:
            check_malformed(c['malformed'], ctx)
        elif 'chain' in c:
            check_mono(dict(script=bytes.fromhex(c['script']), stack=[bytes.fromhex(x) for x in c['stack']], sv=c['sv'], chain=c['chain'], tx=tuple(c['tx']) if c.get('tx') else None), ctx)
        else:
            return True, 'not replayable individually (rerun the quick tier)'
    except Violation as v:
        return False, 'still failing: %s\n  expected %r\n  observed %r' % (v.why, v.expected, v.observed)
    return True, 'ok'
