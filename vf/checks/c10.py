"""C10 - resource limits are enforced at exactly the consensus bounds.

Constructive boundary generation (vf.gen.limits): for each limit and each way of reaching it, scripts at L-1, L, L+1.
Two oracles: (1) the independent reference interpreter (differential: outcome, error identity, number of executed operations,
final stacks), (2) the statement itself (directional): at L-1 and L the debugger must not report that limit's error; at L+1 it
must report exactly that error - except where tapscript is exempt (op count, script size), where L+1 must succeed."""
import collections

from hypothesis import strategies as st

from .. import core
from ..core import Violation
from ..harness import Harness, kvline
from ..ref import script as R
from ..ref.script import F
from ..gen import limits as L, scripts as G

PID = 'C10'
RULE = ('constructive boundary generator: limit in {push 520, stack+altstack 1000, op count 201, script size 10000, multisig keys 20, numeric operand 4 / lock-time operand 5 bytes} '
        'x way of reaching it x {BASE, WITNESS_V0, TAPSCRIPT} x {L-1, L, L+1}; every case is non-trivial by construction; distinct = hash of (script, stack, flags, version, successor)')
LIMIT_ERR = {'opcount': 'OP_COUNT', 'stack': 'STACK_SIZE', 'push': 'PUSH_SIZE', 'scriptsize': 'SCRIPT_SIZE', 'multisig-keys': 'PUBKEY_COUNT',
             'numsize-arith': 'exc', 'numsize-locktime': 'exc'}
_H = {}


def harness():
    if 'h' not in _H:
        _H['h'] = Harness('plain')
    return _H['h']


def case_json(c):
    return dict(limit=c['limit'], way=c['way'], at=c['at'], sv=c['sv'], flags=c['flags'], script_len=len(c['script']), script=c['script'].hex() if len(c['script']) <= 300 else c['script'][:40].hex() + '...' + c['script'][-20:].hex(),
                full_script=c['script'].hex(), stack_items=len(c['stack']), stack=[x.hex() for x in c['stack']] if len(c['stack']) < 30 else None,
                stack_item=(c['stack'][0].hex() if c['stack'] else None), succ=c['succ'].hex() if c.get('succ') else None)


def case_from_json(j):
    stack = [bytes.fromhex(x) for x in j['stack']] if j.get('stack') is not None else [bytes.fromhex(j['stack_item'])] * j['stack_items']
    return dict(script=bytes.fromhex(j['full_script']), stack=stack, flags=j['flags'], sv=j['sv'], succ=bytes.fromhex(j['succ']) if j.get('succ') else None,
                limit=j['limit'], way=j['way'], at=j['at'])


def check_case(c, ctx, h=None):
    h = h or harness()
    sv = c['sv']
    ed = {'weight': 1000000} if sv == R.TAPSCRIPT else None
    trace, oc = R.run(c['script'], c['stack'], c['flags'], sv, execdata=ed, successor=c.get('succ'), keep_trace=False)
    got = h.req(kvline('run', script=c['script'], stack=c['stack'], flags=c['flags'], sv=sv, succ=c.get('succ'), mode='step', trace=0))
    key = b'%s|%d|%d|%d|%s|%d' % (c['script'], len(c['stack']), c['flags'], sv, c.get('succ') or b'', len(c['stack'][0]) if c['stack'] else 0)
    cell = '%s/%s/sv%d/at%+d' % (c['limit'], c['way'], sv, c['at'])
    if 'timeout' in got:
        ctx.inconclusive += 1
        return
    if 'crash' in got or 'exit' in got:
        raise Violation(c, 'harness died (%r) on a limit-boundary script' % got, observed=got)
    # what does the tree say
    if 'refused' in got:
        tree = ('refused', got['refused'])
    elif got['ok']:
        tree = ('ok', '')
    else:
        tree = ('exc' if got['exc'] else 'err', got['err'])
    # reference
    valid = R.has_valid_ops(c['script'])
    if not valid:
        ref = ('refused', 'script')
    elif oc[0] == 'setup':
        ref = ('refused', 'setup:' + R.ERR[oc[1]])
    elif oc[0] == 'ok':
        ref = ('ok', '')
    elif oc[0] == 'err':
        ref = ('err', R.ERR.get(oc[1], oc[1]))
    else:
        ref = ('exc', 'exception thrown: ' + oc[1])
    ctx.case(key, True, dict(case_json(c), full_script=None, reference=ref, debugger=tree), cell)
    ctx.count(cell + '=' + tree[0] + (':' + tree[1] if tree[1] else ''))
    limerr = LIMIT_ERR[c['limit']]
    exempt = sv == R.TAPSCRIPT and c['limit'] in ('opcount', 'scriptsize')

    def is_limit_error(t):
        if limerr == 'exc':
            return t[0] == 'exc' and 'overflow' in t[1]
        if t[0] == 'refused':
            return t[1] == 'setup:' + R.ERR[limerr] or (c['limit'] == 'push' and t[1] == 'script')
        return t[0] == 'err' and t[1] == R.ERR[limerr]

    # (2) the statement, directly
    if exempt and c['limit'] == 'scriptsize' and c['at'] > 0 and is_limit_error(tree) and core.kf_active('C10-tapscript-scriptsize'):
        ctx.known_hit('C10-tapscript-scriptsize', dict(case_json(c), full_script=None, debugger=tree))
        return
    if (c['at'] <= 0 or exempt) and is_limit_error(tree):
        raise Violation(c, 'limit %s (%s): a script %s the limit%s is rejected with the limit error %r' % (
            c['limit'], c['way'], 'at' if c['at'] == 0 else ('below' if c['at'] < 0 else 'above'), ' (tapscript is exempt)' if exempt else '', tree[1]), observed=tree, expected=ref)
    if c['at'] > 0 and not exempt and not is_limit_error(tree):
        # only when reaching the limit is really what decides (the reference, which implements the limits independently, must agree that it does)
        if is_limit_error(ref):
            raise Violation(c, 'limit %s (%s): exceeding the limit by one must fail with %s, debugger says %r' % (c['limit'], c['way'], limerr, tree), observed=tree, expected=ref)
    # (3) the failure is final: stepping on after the limit error repeats it - the session must never reach a successful end that way (the failing
    # operation or script switch left nothing behind). Only for sessions short enough to be logged step by step.
    if tree[0] == 'err' and is_limit_error(tree) and got.get('steps', 10 ** 9) <= 420:
        n = got['steps']
        g = h.req(kvline('session', script=c['script'], stack=c['stack'], flags=c['flags'], sv=sv, succ=c.get('succ'), cmds=','.join(['s'] * (n + 4)), finish=1))
        if 'log' in g:
            ctx.count('failure-is-final-checked:' + c['limit'])
            first = next((i for i, e in enumerate(g['log']) if not e['acc']), None)
            if first is None or g.get('ok'):
                raise Violation(c, 'limit %s (%s): the run fails with %r, but stepping through the same session reaches %s' % (c['limit'], c['way'], tree[1], 'a successful end' if g.get('ok') else 'no failure'),
                                observed=[first, g.get('ok'), g.get('err')], expected=tree)
            for e in g['log'][first:]:
                if e['acc'] or e['err'] != tree[1]:
                    raise Violation(c, 'limit %s (%s): after the step that failed with %r a further step %s' % (c['limit'], c['way'], tree[1], 'is accepted' if e['acc'] else 'fails differently (%r)' % e['err']),
                                    observed=[e['acc'], e['err'], e['d'].get('done')], expected=[False, tree[1]])
    # (1) differential
    if tree != ref:
        raise Violation(c, 'outcome differs from the reference: reference %r, debugger %r' % (ref, tree), observed=tree, expected=ref)
    if tree[0] != 'refused':
        if got['steps'] != len(trace):
            raise Violation(c, 'number of executed operations differs: reference %d, debugger %d' % (len(trace), got['steps']), observed=got['steps'], expected=len(trace))
        if tree[0] == 'ok':
            s = R.run.last_state
            f = got['final']
            if len(f['st']) != len(s.stack) or len(f['alt']) != len(s.alt) or f['st'][-3:] != [x.hex() for x in s.stack[-3:]]:
                raise Violation(c, 'final stack differs', observed=[len(f['st']), len(f['alt']), f['st'][-3:]], expected=[len(s.stack), len(s.alt), [x.hex() for x in s.stack[-3:]]])


def w_retry(ctx, wid, seed):
    """a limit is reached exactly, but on the way one operation FAILED once and was retried after the stack had been repaired with `exec`: the failed
    attempt must not have been counted (operation count incl. multisig keys, stack items), so the script still succeeds at L and fails at L + 1"""
    for name, prefix, repair, counted in (
            ('verify', b'\x00\x69', 'OP_1', 1),                   # OP_0 OP_VERIFY fails; exec OP_1 (a push: not counted) puts a true value on top
            ('equalverify', b'\x51\x52\x88', 'OP_2', 1),           # 1 2 EQUALVERIFY fails; exec OP_2 makes the top two items equal
            ('numequalverify', b'\x51\x52\x9d', 'OP_2', 1)):
        for sv in (R.BASE, R.WITNESS_V0):
            for at in (0, 1):
                nops = 201 + at - counted
                script = prefix + b'\x61' * nops + b'\x51'
                nsteps = len(R.decode(prefix))
                cmds = ['s'] * nsteps + ['e:' + '+'.join(t.encode().hex() for t in repair.split(' '))] + ['s']
                case = dict(way='retry-' + name, sv=sv, at=at, script=script.hex())
                ctx.case(repr(case), True, case, 'retry-after-failed-step')
                flags = 0 if name != 'multisig' else 0
                g = harness().req(kvline('session', script=script, stack=[], flags=flags, sv=sv, cmds=','.join(cmds), finish=1))
                if 'log' not in g:
                    ctx.violations.append(dict(campaign='retry', why='session could not be run: %r' % g, case=case, refails=3))
                    return
                failed_once = not g['log'][nsteps - 1]['acc']
                if not failed_once:
                    ctx.count('retry:prefix-did-not-fail')
                    continue
                ok = bool(g.get('ok'))
                if at == 0 and not ok or at == 1 and (ok or g.get('err') != R.ERR['OP_COUNT']):
                    ctx.violations.append(dict(campaign='retry', why='a script of exactly %d counted operations in which one operation (%s) failed once and was retried after `exec` repaired the stack ends with %r' % (
                        201 + at, name, g.get('err') or 'ok'), case=case, observed=[ok, g.get('err')], expected='ok' if at == 0 else R.ERR['OP_COUNT'], refails=3))
                    return


def w_limits(ctx, wid, seed, examples):
    core.hyp_campaign(ctx, 'limits', L.all_limits, check_case, examples, seed, case_json, max_shrinks=50)


def run(tier, t0):
    n = 1200 if tier == 'quick' else 8000
    m = core.parallel(PID, [(w_limits, dict(examples=n)) for _ in range(core.WORKERS)] + [(w_retry, dict())])
    # table limit x way x version x at: report empty cells
    cells = collections.Counter()
    for k, v in m.counters.items():
        cells[k.split('=')[0]] += v
    want = []
    for lim, ways in (('opcount', ['neutral-units', 'unexecuted-branch', 'multisig-keys', 'multisig-mid', 'phases', 'mixed-units', 'interrupted']), ('stack', ['pushes', 'dup', '2dup', '3dup', 'altstack', 'initial+growth', 'initial-only', 'unexecuted-no-growth']),
                      ('push', ['pushdata2', 'pushdata4', 'unexecuted', 'initial-stack', 'successor-executed', 'successor-unexecuted']), ('scriptsize', ['pushes', 'nops-unexecuted', 'big-pushes', 'p2sh-redeem']), ('multisig-keys', ['zero-sigs', 'one-empty-sig', 'keys-from-stack'])):
        for w in ways:
            for at in (-1, 0, 1):
                want.append((lim, w, at))
    missing = [c for c in want if not any(k.startswith('%s/%s/' % (c[0], c[1])) and k.endswith('at%+d' % c[2]) for k in cells)]
    extra = dict(cells_covered=len(cells), cells_missing=missing)
    if missing and tier == 'thorough':
        m.errors.append('empty boundary cells: %r' % missing[:5])
    return core.finish(PID, tier, m, RULE, t0, min_nontrivial=500 if tier == 'quick' else 20000, extra=extra,
                       assumptions=['reference interpreter implements the limits independently (vf/ref/script.py)',
                                    'a >520-byte push inside the script text is refused at load time (C01 allows refusal); that counts as enforcing the push limit'])


def replay(rec):
    c = case_from_json(rec['case'])
    try:
        check_case(c, core.Ctx(PID))
    except Violation as v:
        return False, 'still failing: %s\n  expected %r\n  observed %r' % (v.why, v.expected, v.observed)
    return True, 'ok'
