"""C11 - mock signatures affect exactly the listed signature/key pairs.

(A) differential: scripts whose signature checks are listed pairs, unlisted pairs (garbage or real signatures with a transaction
context) or a mix, in every signature opcode and script version, compared step by step with the reference interpreter in which a
listed (S,P) succeeds before any other rule and everything else is the real check.
(B) directional: a signature S' != S offered for a listed key P is accepted only if the real check accepts it.
(C) metamorphic non-interference: scripts in which no listed key occurs run identically with and without the option.
(D) the real --pretend-valid= list parser: well-formed lists (hex, strings, inline expressions) work, malformed ones exit 1."""
from hypothesis import strategies as st

from .. import cli, core
from ..core import Violation
from ..harness import Harness, kvline
from ..ref import script as R, secp, tx as T, verify as V
from ..ref import tx as reftx
from ..ref.script import F
from ..gen import sigcases as SC, scripts as G
from . import c02

PID = 'C11'
RULE = ('(pair list, script, stack, flags, sig version[, tx context]); checks use listed pairs, unlisted pairs and mixtures in CHECKSIG / CHECKSIGVERIFY / CHECKMULTISIG(VERIFY) / CHECKSIGADD; '
        'non-trivial = the script evaluates at least one listed pair and at least one signature check that is not listed (or is a directional / non-interference / parser case); distinct = hash of the case')
_H = {}


def harness():
    if 'h' not in _H:
        _H['h'] = Harness('plain')
    return _H['h']


def P(d):
    return R.push_enc(d)


mock_sigs = st.one_of(st.binary(min_size=1, max_size=8), st.sampled_from([b'\xaa', secp.der_sig(1, 1) + b'\x01', bytes(64), bytes(65), b'\x30\x06\x02\x01\x01\x02\x01\x01\x04', b'sig:alice']),
                      st.binary(min_size=9, max_size=73))
mock_keys = st.one_of(st.sampled_from([b'\xbb', bytes([2]) + bytes(range(1, 33)), bytes(range(32)), bytes([4]) + bytes(64), b'alice', SC._POOL[0]['comp'], SC._POOL[1]['x']]), st.binary(min_size=1, max_size=40))


@st.composite
def mock_case(draw, mode='mixed'):
    """mode: 'mixed' (listed + unlisted checks), 'nolisted' (no listed key occurs), 'wrongsig' (listed key, other signature)"""
    sv = draw(st.sampled_from([R.BASE, R.WITNESS_V0, R.TAPSCRIPT]))
    npairs = draw(st.integers(1, 5))
    pairs = []
    for _ in range(npairs):
        s_, k_ = draw(mock_sigs), draw(mock_keys)
        if sv == R.TAPSCRIPT and draw(st.booleans()):
            k_ = (k_ + bytes(32))[:32]
        # one signature maps to one key in the option's table: keep signatures distinct (shared signatures are probed separately)
        if any(p[0] == s_ for p in pairs):
            continue
        pairs.append((s_, k_))
    if draw(st.integers(0, 3)) == 0 and len(pairs) >= 1:
        pairs.append((draw(mock_sigs), pairs[0][1]))          # a key shared between pairs
        if any(p[0] == pairs[-1][0] for p in pairs[:-1]):
            pairs.pop()
    listed_keys = set(k for _, k in pairs)
    flags = 0
    for n in SC.SIGFLAGS:
        if draw(st.integers(0, 2)) == 0:
            flags |= F[n]
    with_tx = draw(st.booleans())
    tx, idx, amount, spent = draw(SC.tx_context(taproot=(sv == R.TAPSCRIPT)))
    body = bytearray()
    stack = []
    nchecks = draw(st.integers(1, 4))
    kinds = []
    ctx_related = [0]

    def unlisted_pair():
        if pairs and draw(st.integers(0, 2)) == 0:
            # near miss: the LISTED signature of a pair, offered for a key that is only related to the listed one (its x-only form, the same x with a
            # prefix byte, the other parity, one byte shorter / longer) - "exactly the listed pairs" means byte-for-byte
            s0, k0 = pairs[draw(st.integers(0, len(pairs) - 1))]
            rel = []
            if len(k0) == 33:
                rel += [k0[1:], bytes([k0[0] ^ 1]) + k0[1:]]
            if len(k0) == 32:
                rel += [b'\x02' + k0, b'\x03' + k0]
            rel += [k0[:-1], k0 + b'\x00']
            rel = [k for k in rel if k not in listed_keys and (sv != R.TAPSCRIPT or len(k) in (32, 33))]
            if rel:
                ctx_related[0] += 1
                return s0, draw(st.sampled_from(rel))
        for _ in range(5):
            k_ = draw(mock_keys)
            if k_ not in listed_keys:
                break
        else:
            k_ = b'\x02' + bytes(32)
        if sv == R.TAPSCRIPT:
            k_ = (k_ + bytes(32))[:32]
            if k_ in listed_keys:
                k_ = bytes([7]) * 32
        return draw(st.one_of(mock_sigs, st.just(b''))), k_

    template = draw(st.sampled_from(['checksig', 'checksig', 'multisig', 'multisig', 'checksigadd'] if sv != R.TAPSCRIPT else ['checksig', 'checksigadd', 'checksigadd']))
    if sv != R.TAPSCRIPT and template == 'checksigadd':
        template = 'checksig'
    can_sign = with_tx and sv != R.TAPSCRIPT and mode == 'mixed'
    if template == 'multisig':
        n = draw(st.integers(1, 4))
        keys = []
        sigs = []
        for i in range(n):
            k = draw(st.integers(0, 2)) if mode == 'mixed' else 1
            if k != 0 and can_sign and draw(st.integers(0, 1)):
                # an unlisted key with a REAL signature over this transaction (valid, or made by another key): listed and really checked
                # pairs inside one CHECKMULTISIG, in every order
                d_ = 1000 + draw(st.integers(1, 40))
                keys.append(secp.ser_pub(secp.gen(d_)))
                if draw(st.integers(0, 3)):
                    good = draw(st.integers(0, 4)) != 0
                    sigs.append(('REAL', d_ if good else d_ + 100, draw(st.sampled_from([1, 1, 1, 2, 3, 0x81, 0x83]))))
                    kinds.append('unlisted')
                    kinds.append('real-valid' if good else 'real-invalid')
            elif k == 0:
                s_, k_ = draw(st.sampled_from(pairs))
                keys.append(k_)
                if draw(st.integers(0, 3)):
                    sigs.append(s_)
                    kinds.append('listed')
            else:
                s_, k_ = unlisted_pair()
                keys.append(k_)
                if draw(st.integers(0, 2)) == 0 and s_:
                    sigs.append(s_)
                    kinds.append('unlisted')
        verify = draw(st.booleans())
        if not any(isinstance(x, tuple) for x in sigs) and draw(st.integers(0, 2)) == 0:
            # the documented usage: dummy and signatures pushed by the script itself (under CONST_SCRIPTCODE a listed signature is not "found in scriptCode")
            body += b'\x00' + b''.join(P(x) for x in sigs)
            kinds.append('in-script')
            stack = []
        else:
            stack = [b''] + sigs
        body += SC.num(len(sigs)) + b''.join(P(k) for k in keys) + SC.num(n) + (b'\xaf\x51' if verify else b'\xae')
    else:
        items = []
        for i in range(nchecks):
            k = draw(st.integers(0, 2)) if mode == 'mixed' else 1
            if k == 0:
                s_, k_ = draw(st.sampled_from(pairs))
                kinds.append('listed')
            else:
                s_, k_ = unlisted_pair()
                kinds.append('unlisted')
            items.append((s_, k_))
        if template == 'checksig':
            for i, (s_, k_) in enumerate(items):
                stack.insert(0, s_)
                last = i == len(items) - 1
                body += P(k_) + (b'\xac' if last else draw(st.sampled_from([b'\xad', b'\xac\x75'])))
        else:
            for i, (s_, k_) in enumerate(items):
                stack.insert(0, s_)
                body += P(k_) + (b'\xac' if i == 0 else b'\xba')
            body += SC.num(draw(st.integers(0, len(items)))) + b'\x9c'
    script = bytes(body)
    if any(isinstance(x, tuple) for x in stack):
        # the signatures are not part of the script, so the signed script code is the script itself
        def real(x):
            _, d_, ht = x
            h = reftx.sighash_legacy(tx, idx, script, ht) if sv == R.BASE else reftx.sighash_v0(tx, idx, script, spent[idx]['value'], ht)
            return secp.der_sig(*secp.ecdsa_sign(d_, h)) + bytes([ht])
        stack = [real(x) if isinstance(x, tuple) else x for x in stack]
    weight = draw(st.sampled_from([0, 1, 49, 50, 99, 100, 1000000, 1000000])) if sv == R.TAPSCRIPT else None
    return dict(pairs=pairs, script=script, stack=stack, flags=flags, sv=sv, tx=(tx, idx, amount, spent) if with_tx else None, kinds=kinds, template=template, weight=weight)


def case_json(c):
    return dict(pairs=[[s.hex(), k.hex()] for s, k in c['pairs']], script=c['script'].hex(), stack=[x.hex() for x in c['stack']], flags=c['flags'], sv=c['sv'],
                tx=(dict(tx=c['tx'][0].ser().hex(), idx=c['tx'][1], amount=c['tx'][2], spent=[[s['value'], s['spk'].hex()] for s in c['tx'][3]]) if c['tx'] else None),
                kinds=c['kinds'], template=c['template'], weight=c.get('weight'))


def case_from_json(j):
    tx = None
    if j['tx']:
        tx = (T.Tx.parse(bytes.fromhex(j['tx']['tx'])), j['tx']['idx'], j['tx']['amount'], [dict(value=v, spk=bytes.fromhex(s)) for v, s in j['tx']['spent']])
    return dict(pairs=[(bytes.fromhex(s), bytes.fromhex(k)) for s, k in j['pairs']], script=bytes.fromhex(j['script']), stack=[bytes.fromhex(x) for x in j['stack']], flags=j['flags'],
                sv=j['sv'], tx=tx, kinds=j['kinds'], template=j['template'], weight=j.get('weight'))


def mock_str(pairs):
    return ','.join('%s:%s' % (s.hex(), k.hex()) for s, k in pairs)


def tree_run(c, with_mock=True):
    h = harness()
    if c['tx']:
        tx, idx, amount, spent = c['tx']
        kw = dict(tx=tx.ser().hex(), idx=idx, spent=c02.spent_str(spent), script=c['script'], stack=c['stack'], flags=c['flags'], sv=c['sv'])
        if c['sv'] == R.TAPSCRIPT:
            kw['leafhash'] = V.tapleaf(0xc0, c['script'])
        # `direct` has no mock parameter: use the Instance path when mocks are wanted
    kw = dict(script=c['script'], stack=c['stack'], flags=c['flags'], sv=c['sv'], mode='step')
    if c.get('weight') is not None:
        kw['weight'] = c['weight']
    if with_mock:
        kw['mock'] = mock_str(c['pairs'])
    if c['tx'] and c['sv'] in (R.BASE, R.WITNESS_V0):
        tx, idx, amount, spent = c['tx']
        kw['tx'] = ','.join(c02.T_amount(s['value']) for s in spent) + ':' + tx.ser().hex()
        kw['idx'] = idx
    return h.req(kvline('run', **kw))


def ref_run(c, with_mock=True):
    ck = None
    if c['tx'] and c['sv'] in (R.BASE, R.WITNESS_V0):
        tx, idx, amount, spent = c['tx']
        ck = V.Checker(tx, idx, spent[idx]['value'], spent)
    ed = {'weight': c['weight'] if c.get('weight') is not None else 1000000, 'leaf': bytes(32)} if c['sv'] == R.TAPSCRIPT else None
    return R.run(c['script'], c['stack'], c['flags'], c['sv'], checker=ck, execdata=ed, mock=c['pairs'] if with_mock else None)


def outcome(oc):
    if oc[0] == 'ok':
        return (True, '')
    if oc[0] == 'err':
        return (False, R.ERR.get(oc[1], oc[1]))
    return (False, 'exception thrown: ' + oc[1])


def check_mixed(c, ctx):
    if not R.has_valid_ops(c['script']):
        return
    trace, oc = ref_run(c)
    exp = outcome(oc)
    nl, nu = c['kinds'].count('listed'), c['kinds'].count('unlisted')
    ctx.case(repr(case_json(c)), nl >= 1 and nu >= 1, dict(case_json(c), expected=exp[1] or 'ok'), 'sv%d:%s:%s' % (c['sv'], c['template'], 'tx' if c['tx'] else 'notx'))
    ctx.count('template:' + c['template'])
    if 'in-script' in c['kinds'] and nl >= 1:
        ctx.count('multisig-with-listed-signature-pushed-by-the-script')
    if 'real-valid' in c['kinds'] and nl >= 1:
        ctx.count('listed-pair-next-to-valid-real-signature')
    g = tree_run(c)
    if g.get('timeout'):
        ctx.inconclusive += 1
        return
    if 'crash' in g or 'exit' in g or 'refused' in g:
        raise Violation(c, 'mock-signature case died / refused: %r' % g, observed=g)
    et = [list(x) for x in trace]
    for i in range(min(len(et), len(g['trace']))):
        if et[i] != g['trace'][i]:
            raise Violation(c, 'state after operation %d differs from "listed pairs succeed, everything else is the real check"' % i, observed=g['trace'][i], expected=et[i])
    if len(et) != len(g['trace']) or bool(g['ok']) != exp[0] or g['err'] != exp[1]:
        raise Violation(c, 'outcome differs: reference %r after %d ops, debugger %r after %d ops' % (exp[1] or 'ok', len(et), g['err'] or 'ok', len(g['trace'])), observed=[g['ok'], g['err']], expected=list(exp))


def check_noninterference(c, ctx):
    """no listed key occurs in the script: with and without the option the runs are identical (and equal the reference)"""
    if not R.has_valid_ops(c['script']):
        return
    ctx.case('ni' + repr(case_json(c)), True, None, 'non-interference')
    a = tree_run(c, True)
    b = tree_run(c, False)
    for g in (a, b):
        if g.get('timeout'):
            ctx.inconclusive += 1
            return
        if 'crash' in g or 'exit' in g or 'refused' in g:
            raise Violation(c, 'case died / refused: %r' % g, observed=g)
    if a['trace'] != b['trace'] or a['ok'] != b['ok'] or a['err'] != b['err']:
        raise Violation(c, 'a script that involves no listed key runs differently with --pretend-valid (%r) than without (%r)' % (a['err'] or 'ok', b['err'] or 'ok'), observed=[a['ok'], a['err']], expected=[b['ok'], b['err']])
    trace, oc = ref_run(c, False)
    exp = outcome(oc)
    if [list(x) for x in trace] != b['trace'] or bool(b['ok']) != exp[0] or b['err'] != exp[1]:
        raise Violation(c, 'run without the option differs from the reference: %r vs %r' % (exp[1] or 'ok', b['err'] or 'ok'), observed=[b['ok'], b['err']], expected=list(exp))


@st.composite
def wrongsig_case(draw):
    """a single check of (S', P) with P listed for another signature S"""
    sv = draw(st.sampled_from([R.BASE, R.WITNESS_V0, R.TAPSCRIPT]))
    s_, k_ = draw(mock_sigs), draw(mock_keys)
    if sv == R.TAPSCRIPT:
        k_ = (k_ + bytes(32))[:32]
    other = draw(mock_sigs)
    if other == s_:
        other = s_ + b'\x01'
    extra = [(draw(mock_sigs), draw(mock_keys)) for _ in range(draw(st.integers(0, 2)))]
    extra = [p for p in extra if p[0] != s_ and p[1] != k_]
    if extra and draw(st.booleans()):
        other = extra[0][0]          # a signature that IS listed - for another key (cross-pairing must not be accepted)
    pairs = [(s_, k_)] + [p for p in extra if p[0] != s_ and (p[0] != other or p == extra[0])]
    op = draw(st.sampled_from(['checksig', 'multisig'] if sv != R.TAPSCRIPT else ['checksig', 'checksigadd']))
    if op == 'checksig':
        script, stack = P(k_) + b'\xac', [other]
    elif op == 'multisig':
        script, stack = b'\x51' + P(k_) + b'\x51\xae', [b'', other]
    else:
        script, stack = P(k_) + b'\xac' + P(k_) + b'\xba', [other, b'']
    flags = draw(st.sampled_from([0, F['NULLFAIL'], F['STRICTENC'] | F['DERSIG']]))
    return dict(pairs=pairs, script=script, stack=stack, flags=flags, sv=sv, tx=None, kinds=['wrongsig'], template=op, weight=None)


def check_wrongsig(c, ctx):
    ctx.case('ws' + repr(case_json(c)), True, dict(case_json(c)), 'wrong-signature-for-listed-key')
    g = tree_run(c)
    if g.get('timeout'):
        ctx.inconclusive += 1
        return
    if 'crash' in g or 'exit' in g:
        raise Violation(c, 'case died: %r' % g, observed=g)
    # without a transaction the real check rejects every signature: the check must not report success
    top = g['final']['st'][-1] if g.get('final') and g['final']['st'] else ''
    accepted = bool(g.get('ok')) and R.cast_bool(bytes.fromhex(top)) if top else False
    if accepted:
        raise Violation(c, 'a signature other than the listed one was accepted for a listed key on the strength of the option', observed=[g['ok'], g['final']['st']])


def w_mixed(ctx, wid, seed, examples):
    core.hyp_campaign(ctx, 'mixed', mock_case('mixed'), check_mixed, examples, seed, case_json)


def w_ni(ctx, wid, seed, examples):
    core.hyp_campaign(ctx, 'non-interference', mock_case('nolisted'), check_noninterference, examples, seed, case_json)


def w_wrongsig(ctx, wid, seed, examples):
    core.hyp_campaign(ctx, 'wrongsig', wrongsig_case(), check_wrongsig, examples, seed, case_json)


GOOD_LISTS = [('aa:bb', 'aa', 'bb'), ('0xaa:0xbb', 'aa', 'bb'), ('aa:bb,cc:dd', 'cc', 'dd'), ('sig1:alice', b'sig1'.hex(), b'alice'.hex()),
              ('sha256(0x01):bb', R.sha256(b'\x01').hex(), 'bb'), ('aa:hash160(0x02)', 'aa', R.ripemd(R.sha256(b'\x02')).hex()),
              # the list is text of the user's: upper-case hex is the same bytes, a word with capital letters is exactly those characters
              ('AABB:CCDD', 'aabb', 'ccdd'), ('SigA:PubA', b'SigA'.hex(), b'PubA'.hex()), ('sig1:pub1,SigB:PubB', b'SigB'.hex(), b'PubB'.hex()), ('sig1:sha256(Alice)', b'sig1'.hex(), R.sha256(b'Alice').hex())]
BAD_LISTS = ['abc', 'a:b:c', 'aa:bb,cc', 'aa,bb', 'aa:bb:cc,dd:ee', 'abcd:', 'aa:bb,cc:', 'sig1:', 'aa:,bb:cc', 'aa:bb,cc:,dd:ee', 'aa:bb,', 'aa:bb,cc:dd,', 'aa:bb,,cc:dd', ',aa:bb', '']     # (a signature without its key, a trailing comma, the empty list)


def w_cli(ctx, wid, seed):
    exe = cli.binpath('btcdeb')
    for text, s_, k_ in GOOD_LISTS:
        script = '[0x%s 0x%s OP_CHECKSIG]' % (s_, k_)
        r = cli.run(exe, ['--pretend-valid=' + text, '--modify-flags=-CONST_SCRIPTCODE'], stdin=script.encode() + b'\n')
        ctx.case('cli-good:' + text, True, dict(list=text, script=script, rc=r.rc, out=r.out.decode(errors='replace')), 'cli-list')
        if r.timed_out:
            ctx.inconclusive += 1
            continue
        if r.abnormal or r.rc != 0 or r.out.strip() != b'01':
            ctx.violations.append(dict(campaign='cli', why='--pretend-valid=%s: checking the listed pair must succeed (stack 01), got rc=%s out=%r err=%r' % (text, r.rc, r.out[-60:], r.err[-160:]), case=dict(list=text), refails=3))
            return
    # every pair of a longer list counts (first, middle, last), with the long option, the short option -P (attached and as a separate argument)
    pairs = [('a1a1', '02' + 'aa' * 32), ('b2b2b2', '03' + 'bb' * 32), ('c3', '02' + 'cc' * 32), ('d4d4', 'dd' * 32)]
    text = ','.join('%s:%s' % p for p in pairs)
    for form in (['--pretend-valid=' + text], ['-P' + text], ['-P', text]):
        for i, (s_, k_) in enumerate(pairs):
            for other in (False, True):
                # the listed pair, and the same signature with the NEXT pair's key (not listed together: must not be accepted)
                key = pairs[(i + 1) % len(pairs)][1] if other else k_
                script = '[0x%s 0x%s OP_CHECKSIG]' % (s_, key)
                r = cli.run(exe, form + ['--modify-flags=-CONST_SCRIPTCODE,-NULLFAIL,-STRICTENC,-DERSIG,-LOW_S,-WITNESS_PUBKEYTYPE'], stdin=script.encode() + b'\n')
                ctx.case('cli-multi:%s:%d:%d' % (form[0][:3], i, other), True, dict(form=form[0][:16], pair=i, other_key=other), 'cli-list-multi')
                if r.timed_out:
                    ctx.inconclusive += 1
                    continue
                want = b'' if other else b'01'
                if r.abnormal or r.rc != 0 or r.out.strip() != want:
                    ctx.violations.append(dict(campaign='cli', why='%s with %d pairs: checking signature %d against %s must give the stack %r, got rc=%s out=%r err=%r' % (
                        form[0][:16], len(pairs), i, 'the key of another pair' if other else 'its own key', want, r.rc, r.out[-60:], r.err[-160:]), case=dict(list=text, form=form[0][:3], pair=i, other=other), refails=3))
                    return
    # elements of any length (a signature or key of 127 / 128 / 200 / 300 bytes as hex text: 254 .. 600 characters)
    for nsig, nkey in ((127, 33), (128, 33), (200, 65), (300, 33), (72, 128), (72, 200)):
        s_, k_ = 'a7' * nsig, '02' + 'c3' * (nkey - 1)
        script = '[0x%s 0x%s OP_CHECKSIG]' % (s_, k_)
        for text in ('%s:%s' % (s_, k_), '0x%s:0x%s' % (s_, k_), 'aa:bb,%s:%s' % (s_, k_)):
            r = cli.run(exe, ['--pretend-valid=' + text, '--modify-flags=-CONST_SCRIPTCODE'], stdin=script.encode() + b'\n')
            ctx.case('cli-long:%d:%d:%s' % (nsig, nkey, text[:6]), True, dict(sig_bytes=nsig, key_bytes=nkey, form=text[:6]), 'cli-list-long-elements')
            if r.timed_out:
                ctx.inconclusive += 1
                continue
            if r.abnormal or r.rc != 0 or r.out.strip() != b'01':
                ctx.violations.append(dict(campaign='cli', why='a listed pair with a %d-byte signature and a %d-byte key is not accepted (stack 01 expected): rc=%s out=%r err=%r' % (nsig, nkey, r.rc, r.out[-40:], r.err[-160:]),
                                           case=dict(list='long', sig_bytes=nsig, key_bytes=nkey), refails=3))
                return
    for text in BAD_LISTS:
        r = cli.run(exe, ['--pretend-valid=' + text], stdin=b'0x51\n')
        ctx.case('cli-bad:' + text, True, dict(list=text, rc=r.rc), 'cli-malformed')
        if r.timed_out:
            ctx.inconclusive += 1
            continue
        if r.abnormal or r.rc != 1 or not r.err.strip():
            ctx.violations.append(dict(campaign='cli-malformed', why='malformed pair list %r must be rejected with exit 1 and a diagnostic, got rc=%s out=%r err=%r' % (text, r.rc, r.out[-60:], r.err[-160:]), case=dict(list=text), refails=3))
            return


@st.composite
def spend_mock_case(draw):
    """a real spend session (--tx/--txin) whose signature has been destroyed, repaired by listing exactly that (signature, key) pair: taproot key path
    (the pair names the OUTPUT key of the synthetic `<key> OP_CHECKSIG`), P2WPKH / P2PKH / P2SH-P2WPKH, and the same with the pair's key changed"""
    from ..gen import spends
    rnd = draw(st.randoms(use_true_random=False))
    typ = draw(st.sampled_from(['p2tr-key', 'p2tr-key', 'p2tr-key', 'p2wpkh', 'p2pkh', 'p2sh-p2wpkh', 'p2pk']))
    c = spends.build(rnd, typ, ninputs=draw(st.sampled_from([1, 1, 2, 3])) if typ == 'p2tr-key' else 1)
    tx, idx = c['tx'], c['idx']
    vin = tx.vin[idx]
    how = draw(st.sampled_from(['flip', 'random', 'short']))
    if vin['wit']:
        sig = vin['wit'][0]
        new = {'flip': bytes([sig[0] ^ 1]) + sig[1:] if typ == 'p2tr-key' else sig[:5] + bytes([sig[5] ^ 1]) + sig[6:], 'random': bytes(rnd.getrandbits(8) for _ in range(64 if typ == 'p2tr-key' else 9)), 'short': b'sig1'}[how]
        vin['wit'][0] = new
        key = c['spk'][2:] if typ == 'p2tr-key' else vin['wit'][1]
    else:
        ops = R.decode(vin['script'])
        sig = ops[0][1]
        new = {'flip': sig[:5] + bytes([sig[5] ^ 1]) + sig[6:], 'random': bytes(rnd.getrandbits(8) for _ in range(9)), 'short': b'sig1'}[how]
        vin['script'] = P(new) + vin['script'][len(P(sig)):]
        key = ops[1][1] if typ == 'p2pkh' else R.decode(c['spk'])[0][1]
    listed = draw(st.sampled_from(['right', 'right', 'other-key', 'other-sig', 'none']))
    pair = {'right': (new, key), 'other-key': (new, bytes([key[0]]) + bytes([key[1] ^ 1]) + key[2:]), 'other-sig': (new + b'\x01', key), 'none': None}[listed]
    return dict(tx=tx.ser().hex(), txin=c['fund'].ser().hex(), typ=typ, how=how, listed=listed, pair=[pair[0].hex(), pair[1].hex()] if pair else None, ninputs=len(tx.vin))


def check_spend_mock(c, ctx):
    kw = dict(spendtx=c['tx'], spendtxin=c['txin'], flags=sum(F[n] for n in R.FLAGS if n != 'SIGPUSHONLY'), cmds='', finish=1)
    if c['pair']:
        kw['mock'] = '%s:%s' % tuple(c['pair'])
    ctx.case(repr(c), True, c, 'spend-mock:%s:%s' % (c['typ'], c['listed']))
    ctx.count('spend-mock:' + c['typ'] + (':multi-input' if c['ninputs'] > 1 else ''))
    g = harness().req(kvline('session', **kw))
    if g.get('timeout'):
        ctx.inconclusive += 1
        return
    if 'crash' in g or 'exit' in g:
        raise Violation(c, 'spend session with a mocked pair died: %r' % g, observed=g)
    if 'refused' in g:
        raise Violation(c, 'spend session refused: %r' % g, observed=g)
    good = bool(g.get('ok')) and g['final']['st'] == ['01']
    if c['listed'] == 'right' and not good:
        raise Violation(c, 'the destroyed signature of a %s spend is listed with its key (%s), but the session fails: %s' % (c['typ'], kw['mock'][:40] + '...', g.get('err')), observed=[g.get('ok'), g.get('err')], expected='01')
    if c['listed'] != 'right' and good:
        raise Violation(c, 'a destroyed signature is accepted although the listed pair (%s) is not the checked one' % c['listed'], observed=g['final']['st'], expected='signature failure')


def w_spend_mock(ctx, wid, seed, examples):
    core.hyp_campaign(ctx, 'spend-mock', spend_mock_case(), check_spend_mock, examples, seed, lambda c: c)


def w_shared_sig(ctx, wid, seed):
    """one signature listed for two keys: both listed pairs must succeed"""
    c = dict(pairs=[(b'\xaa', b'\xb1'), (b'\xaa', b'\xb2')], script=P(b'\xb1') + b'\xad' + P(b'\xb2') + b'\xac', stack=[b'\xaa', b'\xaa'], flags=0, sv=R.BASE, tx=None, kinds=['listed', 'listed'], template='checksig')
    ctx.case('shared-sig', True, case_json(c), 'shared-signature')
    g = tree_run(c)
    ok = g.get('ok') and g['final']['st'] == ['01']
    if not ok:
        if core.kf_active('C11-shared-signature'):
            ctx.known_hit('C11-shared-signature', case_json(c))
        else:
            ctx.violations.append(dict(campaign='shared-sig', why='--pretend-valid=aa:b1,aa:b2: the listed pair aa:b1 is not accepted (the table keeps one key per signature)', case=case_json(c), observed=[g.get('ok'), g.get('err')], refails=3))


def run(tier, t0):
    W = core.WORKERS
    n = 1200 if tier == 'quick' else 40000
    tasks = [(w_cli, dict()), (w_shared_sig, dict())] + [(w_mixed, dict(examples=n)) for _ in range(W)] + [(w_ni, dict(examples=n // 2)) for _ in range(W // 2)] + [(w_wrongsig, dict(examples=n // 2)) for _ in range(W // 4)] + [(w_spend_mock, dict(examples=n // 4)) for _ in range(max(2, W // 4))]
    m = core.parallel(PID, tasks)
    return core.finish(PID, tier, m, RULE, t0, min_nontrivial=2000 if tier == 'quick' else 80000,
                       assumptions=['reference interpreter with the rule "a listed (S,P) succeeds before any other rule"; everything else is the real check',
                                    'mocked signatures are supplied on the stack or - for CHECKMULTISIG - pushed by the script; the tapscript validation weight is not compared for mocked checks (the statement is silent on it)',
                                    'for a listed key offered another signature only the direction "accepted => the real check accepts" is asserted'])


def replay(rec):
    camp = rec.get('campaign')
    ctx = core.Ctx(PID)
    if camp in ('cli', 'cli-malformed'):
        w_cli(ctx, 0, 0)
        return (not ctx.violations), str(ctx.violations[:1])
    if camp == 'spend-mock':
        try:
            check_spend_mock(rec['case'], ctx)
        except Violation as v:
            return False, 'still failing: %s' % v.why
        return True, 'ok'
    c = case_from_json(rec['case'])
    try:
        if camp == 'non-interference':
            check_noninterference(c, ctx)
        elif camp == 'wrongsig':
            check_wrongsig(c, ctx)
        elif camp == 'shared-sig':
            w_shared_sig(ctx, 0, 0)
            return (not ctx.violations), str(ctx.violations[:1])
        else:
            check_mixed(c, ctx)
    except Violation as v:
        return False, 'still failing: %s\n  expected %r\n  observed %r' % (v.why, v.expected, v.observed)
    return True, 'ok'
