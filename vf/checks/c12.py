"""C12 - the script listing and the position marker show exactly what executes next.

Sessions (plain scripts with every push form, legacy spends with scriptPubKey and P2SH sections, P2WSH / P2SH-P2WPKH, tapscript
with path length 0..5) are opened in the real btcdeb REPL on pseudo-terminals; after every command of a step/rewind history
`print` is issued. Oracle for the listing: the reference decoding of the bytes that will execute, in execution order, rendered
"non-empty push -> hex, otherwise the opcode's name" (plus section headers and, for tapscript, one line per path node, the tweak
and the final check). Oracle for the marker: the same history is replayed in the harness; the marked line must be the one
describing the operation (or script switch / commitment step) that the next step really executes; nothing is marked when done."""
import re

from hypothesis import strategies as st

from .. import cli, core
from ..core import Violation
from ..harness import Harness, kvline
from ..ref import script as R, tx as T, verify as V
from ..ref.opcodes import NAMES
from ..ref.script import F, FLAGS
from ..gen import scripts as G, sessions as SS
from . import c04

PID = 'C12'
RULE = ('(session, step/rewind history); after every command the `print` listing and its marker are compared with the reference decoding and with the operation the harness replay executes next; '
        'non-trivial = multi-section session (scriptPubKey / P2SH / taproot commitment sections) or a history containing an accepted rewind; distinct = hash of (session, history)')
STD = SS.STD
_H = {}


def harness():
    if 'h' not in _H:
        _H['h'] = Harness('plain')
    return _H['h']


def opname(op):
    """Core's GetOpName"""
    if op == 0:
        return '0'
    if op == 0x4f:
        return '-1'
    if 0x51 <= op <= 0x60:
        return str(op - 0x50)
    if op in (0x4c, 0x4d, 0x4e):
        return NAMES[op]
    return NAMES.get(op, 'OP_UNKNOWN')


def render(script):
    out = []
    for e in R.decode(script):
        if e is None:
            break
        op, data, _ = e
        out.append(data.hex() if data else opname(op))
    return out


def op_index(script, pc):
    """index of the operation that starts at byte offset pc"""
    n = 0
    for e in R.decode(script):
        if e is None:
            return None
        start_next = e[2]
        if start_next > pc:
            return n
        n += 1
    return n


@st.composite
def plain_base(draw):
    k = draw(st.integers(0, 3))
    if k == 0:
        # every push form incl. empty pushes and 520-byte pushes
        body = bytearray()
        for _ in range(draw(st.integers(1, 8))):
            v = draw(st.one_of(G.small_values, st.sampled_from([b'', bytes(75), bytes(76), bytes(255), bytes(256), bytes(520)])))
            body += G.push(v, draw(G.push_how))
            if draw(st.booleans()):
                body += b'\x75'
        script, stack = bytes(body) + b'\x51', []
    else:
        script, stack = draw(G.grammar_script(profile=draw(st.sampled_from(['ctrl', 'altstack', 'mixed'])), max_ops=18))
    flags = draw(st.sampled_from([STD, STD & ~F['MINIMALDATA'], STD & ~F['CLEANSTACK'] & ~F['MINIMALDATA'] & ~F['DISCOURAGE_UPGRADABLE_NOPS']]))
    return dict(kind='plain', kw=dict(script=script, stack=stack, flags=flags, sv=R.BASE))


@st.composite
def p2sh_plain(draw):
    """a P2SH-shaped plain script with the redeem script as last stack argument"""
    redeem, _ = draw(G.grammar_script(profile='arith', max_ops=6))
    redeem = redeem[:200]
    args = [draw(G.small_values) for _ in range(draw(st.integers(0, 2)))]
    if draw(st.integers(0, 4)) == 0:
        # a redeem script that is ITSELF of the pay-to-script-hash shape: it runs as an ordinary script (one level only), the item below it is data
        inner = draw(st.sampled_from([b'\x51', b'\x52\x53\x93', b'\x00', b'\x6a']))
        redeem = b'\xa9\x14' + R.ripemd(R.sha256(inner)) + b'\x87'
        args = args + [draw(st.sampled_from([inner, inner, b'\x01']))]
    return dict(kind='plain-p2sh', kw=dict(script=b'\xa9\x14' + R.ripemd(R.sha256(redeem)) + b'\x87', stack=args + [redeem], flags=STD & ~F['CLEANSTACK'], sv=R.BASE))


@st.composite
def plain_long(draw):
    """listings of more than 100 / more than 1000 lines (index width), walked far into the script"""
    units = [draw(st.sampled_from([b'\x51\x75', b'\x61', b'\x52\x53\x93\x75', b'\x01\x42\x75', b'\x74\x75'])) for _ in range(draw(st.integers(1, 3)))]
    lines = draw(st.sampled_from([99, 100, 101, 130, 130, 999, 1000, 1001, 1100]))
    body = bytearray()
    i = 0
    while len(R.decode(bytes(body))) < lines - 1 and sum(1 for e in R.decode(bytes(body) + units[i % len(units)]) if e[0] > 0x60) <= 200:
        body += units[i % len(units)]
        i += 1
    while len(R.decode(bytes(body))) < lines - 1:
        body += b'\x51'          # uncounted filler (pushes only) once the 201 counted operations are used up
    return dict(kind='plain-long', kw=dict(script=bytes(body) + b'\x51', stack=[], flags=STD & ~F['CLEANSTACK'], sv=R.BASE))


@st.composite
def p2sh_smallint(draw):
    """a pay-to-script-hash spend whose redeem script is the single byte 0x81 (OP_RIGHT, with -z) - under MINIMALDATA the only way to push it is OP_1NEGATE,
    which carries no push payload: the P2SH section of the listing must still show what is going to run"""
    from ..gen import spends
    rnd = draw(st.randoms(use_true_random=False))
    redeem = b'\x81'
    fund, pos = spends.mk_funding(rnd, b'\xa9\x14' + R.ripemd(R.sha256(redeem)) + b'\x87', 1000)
    tx, idx, _ = spends.mk_spending(rnd, fund, pos, 1)
    tx.vin[idx]['script'] = G.push(draw(st.sampled_from([b'\x01\x02', b'abc', b'\x05\x06\x07\x08'])), 1) + draw(st.sampled_from([b'\x51', b'\x52', b'\x00'])) + b'\x4f'
    return dict(kind='spend-p2sh-smallint', kw=dict(spendtx=tx.ser().hex(), spendtxin=fund.ser().hex(), flags=STD, z=1))


def sessions():
    return st.one_of(p2sh_smallint(), plain_base(), plain_base(), p2sh_plain(), plain_long(), SS.legacy_spend(), SS.legacy_spend(), SS.tapscript_spend(), SS.codesep_mock().filter(lambda s: s['kw']['sv'] == R.BASE))


def cli_args(sess):
    kw = sess['kw']
    args = []
    flags = kw['flags']
    mods = []
    for n in FLAGS:
        if (STD & F[n]) and not (flags & F[n]):
            mods.append('-' + n)
        if not (STD & F[n]) and (flags & F[n]):
            mods.append('+' + n)
    if mods:
        args.append('--modify-flags=' + ','.join(mods))
    if kw.get('z'):
        args.append('-z')
    if 'spendtx' in kw:
        return args + ['--tx=' + kw['spendtx'], '--txin=' + kw['spendtxin']]
    if kw.get('mock'):
        args.append('--pretend-valid=' + ','.join('0x%s:0x%s' % tuple(p.split(':')) for p in kw['mock'].split(',')))
    return args + ['0x' + kw['script'].hex()] + ['0x' + x.hex() for x in kw['stack']]


def expected_listing(sess, init):
    """lines (without #NNNN) and, for every line, what it stands for: ('op', phase, index) | ('hdr', phase) | ('tce', i)"""
    kw = sess['kw']
    lines, what = [], []
    if 'spendtx' in kw:
        tx = T.Tx.parse(bytes.fromhex(kw['spendtx']))
        fund = T.Tx.parse(bytes.fromhex(kw['spendtxin']))
        i = [k for k, v in enumerate(tx.vin) if v['txid'] == fund.txid()][0]
        vin = tx.vin[i]
        out = fund.vout[vin['n']]
        wit = vin['wit']
        if wit:
            wp = V.witness_program(out['spk'])
            if wp is None:           # P2SH-wrapped
                redeem = R.decode(vin['script'])[-1][1]
                wp = V.witness_program(redeem)
            ver, prog = wp
            if ver == 0 and len(prog) == 20:
                scripts = [b'\x76\xa9\x14' + prog + b'\x88\xac']
            elif ver == 0:
                scripts = [wit[-1]]
            else:
                st_ = list(wit)
                if len(st_) >= 2 and st_[-1] and st_[-1][0] == 0x50:
                    st_.pop()
                if len(st_) == 1:
                    scripts = [R.push_enc(prog) + b'\xac']
                else:
                    control, script = st_[-1], st_[-2]
                    m = (len(control) - 33) // 32
                    for k in range(m):
                        lines.append('Branch: ' + control[33 + 32 * k: 65 + 32 * k].hex())
                        what.append(('tce', k))
                    lines.append('Tweak: ' + control[1:33].hex())
                    what.append(('tce', m))
                    lines.append('CheckTapTweak')
                    what.append(('tce', m))
                    scripts = [script]
            for j, e in enumerate(render(scripts[0])):
                lines.append(e)
                what.append(('op', 0, j))
            return lines, what, scripts
        scripts = [vin['script'], out['spk']]
        p2sh = bool(kw['flags'] & F['P2SH']) and V.is_p2sh(out['spk'])
        if p2sh:
            ops = [e for e in R.decode(vin['script']) if e is not None]
            # the redeem script is the VALUE the last operation of the scriptSig leaves on the stack (OP_1NEGATE / OP_1..OP_16 push one byte)
            last = ops[-1] if ops else None
            if last is None:
                scripts.append(b'')
            elif last[1] is not None:
                scripts.append(last[1])
            elif last[0] == 0x4f or 0x51 <= last[0] <= 0x60:
                scripts.append(bytes([0x81 if last[0] == 0x4f else last[0] - 0x50]))
            else:
                scripts.append(b'')
    else:
        scripts = [kw['script']]
        if kw['flags'] & F['P2SH'] and V.is_p2sh(kw['script']) and kw['stack']:
            scripts.append(kw['stack'][-1])
    hdrs = ['', '<<< scriptPubKey >>>', '<<< P2SH script >>>'] if len(scripts) == 3 or 'spendtx' in kw else ['', '<<< P2SH script >>>']
    for ph, sc in enumerate(scripts):
        if ph == 1 and 'spendtx' in kw and len(sc) == 0 and len(scripts) == 2:
            continue        # an empty scriptPubKey is no section: nothing of it is executed, not even a switch to it
        if ph:
            lines.append(hdrs[ph])
            what.append(('hdr', ph))
        for j, e in enumerate(render(sc)):
            lines.append(e)
            what.append(('op', ph, j))
    return lines, what, scripts


LINE = re.compile(r'^( -> |    )(#\d{4} )?(.*)$')


def parse_print(block):
    out = []
    for l in block.split('\n'):
        l = l.rstrip('\r')
        if not l.strip():
            continue
        m = LINE.match(l)
        if not m:
            continue
        out.append((m.group(1) == ' -> ', m.group(3), m.group(2)))
    return out


STACKLINE = re.compile(r'^<\d+>\t([0-9a-f]*)')


def parse_stack(block):
    out = []
    for l in block.split('\n'):
        m = STACKLINE.match(l.rstrip('\r'))
        if m:
            out.append(m.group(1))
    return out


TABLE_RULE = re.compile(r'^-+\+-+$')


def parse_table_column(block):
    """the script column of the state table a step / rewind prints (None when the block has no table)"""
    ls = [l.rstrip('\r') for l in block.split('\n')]
    rules = [j for j, l in enumerate(ls) if TABLE_RULE.match(l)]
    if not rules:
        return None
    w = ls[rules[-1]].index('+')
    out = []
    for l in ls[rules[-1] + 1:]:
        if len(l) <= w or l[w] != '|':
            break
        out.append(l[:w].rstrip())
    while out and not out[-1]:
        out.pop()
    return out


def column_matches(got, want):
    if len(got) != len(want):
        return False
    for a, b in zip(got, want):
        if a != b and not (a.endswith('...') and b.startswith(a[:-3])):
            return False
    return True


def case_json(case):
    return c04.case_json(case)


# a failing step is rolled back (the position stays on the failing operation): the listing / marker claims hold after it too
FAILED_STEP_DOMAIN = True


def check_session(case, ctx):
    sess, hist = case
    lines, what, scripts = expected_listing(sess, None)
    multi = len(scripts) > 1 or any(w[0] == 'tce' for w in what)
    # per position: print, stack, altstack, vfexec (QN = 4 query commands), preceded by the history command itself
    cmds = ['print', 'stack', 'altstack', 'vfexec']
    for c in hist:
        cmds += ['step' if c == 's' else 'rewind', 'print', 'stack', 'altstack', 'vfexec']
    # ground truth first: a session the tool refuses to set up is not a session
    g0 = harness().req(c04.session_req(sess, [], False))
    if 'log' not in g0:
        ctx.count('session-refused')
        return
    rp = cli.Repl(cli_args(sess))
    blocks, err, status = rp.session(cmds, timeout=30)
    if status.startswith('died'):
        raise Violation(case, 'btcdeb REPL died (%s) during a step/rewind/print session' % status, observed=err[-300:])
    if status != 'ok':
        ctx.inconclusive += 1
        return
    # ground truth: the same history in the harness
    g = harness().req(c04.session_req(sess, hist, False))
    if 'log' not in g:
        ctx.count('harness-refused')
        return
    dumps = [g['init']] + [e['d'] for e in g['log']]
    accepted_rewind = any(e['c'] == 'r' and e['acc'] for e in g['log'])
    ctx.case(repr(case_json(case)), multi or accepted_rewind or len(lines) >= 100, dict(case_json(case), listing=lines[:12], sections=len(scripts)), sess['kind'])
    ctx.count('kind:' + sess['kind'])
    if len(lines) >= 100:
        ctx.count('listing>=100-lines' if len(lines) < 1000 else 'listing>=1000-lines')
    ntce = sum(1 for w in what if w[0] == 'tce')
    # phase tracking: the harness dump tells the current script length; map it to the phase
    # block layout: [banner] then per position k: (k>0: echo of the history command), print, stack, altstack, vfexec
    def blk(k, q):
        return blocks[1 + q] if k == 0 else blocks[4 + 5 * (k - 1) + 2 + q]
    prints = [parse_print(blk(k, 0)) for k in range(len(hist) + 1)]
    echoes = [None] + [blocks[4 + 5 * (k - 1) + 1] for k in range(1, len(hist) + 1)]
    stacks = [(parse_stack(blk(k, 1)), parse_stack(blk(k, 2)), parse_stack(blk(k, 3))) for k in range(len(hist) + 1)]
    failed_step = False
    for k, (pl, d) in enumerate(zip(prints, dumps)):
        if k > 0 and g['log'][k - 1]['c'] == 's' and not g['log'][k - 1]['acc'] and not dumps[k - 1]['done']:
            failed_step = True
        if failed_step:
            ctx.count('position-after-a-failed-step')
            if not FAILED_STEP_DOMAIN:
                break
        # the interactive stack / altstack / vfexec commands tell the same story as the state the harness replay reaches
        st_main, st_alt, st_vf = stacks[k]
        if d['tce'] == 0:
            if st_main != list(reversed(d['st'])) or st_alt != list(reversed(d['alt'])):
                raise Violation(case, '`stack` / `altstack` after %d commands show %r / %r, the session state is %r / %r (top first)' % (k, st_main[:4], st_alt[:4], list(reversed(d['st']))[:4], list(reversed(d['alt']))[:4]),
                                observed=[st_main[:6], st_alt[:6]], expected=[list(reversed(d['st']))[:6], list(reversed(d['alt']))[:6]])
            want_vf = ['01' if ch == '1' else '00' for ch in reversed(d['vf'])]
            if st_vf != want_vf:
                raise Violation(case, '`vfexec` after %d commands shows %r, the conditional state is %r (innermost first)' % (k, st_vf, want_vf), observed=st_vf, expected=want_vf)
        texts = [t for _, t, _ in pl]
        if texts != lines:
            bad = next((i for i in range(min(len(texts), len(lines))) if texts[i] != lines[i]), min(len(texts), len(lines)))
            raise Violation(case, 'listing differs from the decoding of the bytes to be executed at line %d (after %d commands): %r vs %r' % (bad, k, texts[bad:bad + 1], lines[bad:bad + 1]),
                            observed=texts[max(0, bad - 1):bad + 2], expected=lines[max(0, bad - 1):bad + 2])
        marked = [i for i, (mk, _, _) in enumerate(pl) if mk]
        # expected target
        target = None
        if d['done']:
            target = None
        elif d['tce']:
            # commitment phase: curr_op_seq counts completed commitment steps
            target = d['seq']        # completed commitment steps = index of the pending commitment line
        else:
            # phase = number of script switches performed so far (rewinds cannot cross a switch)
            phase = 0
            for j in range(k):
                e = g['log'][j]
                if e['c'] == 's' and e['acc']:
                    a_, b_ = dumps[j], dumps[j + 1]
                    if (a_['succ'] > 0 and b_['succ'] == 0) or (a_['p2sh'] and not b_['p2sh']):
                        phase += 1
            phase = min(phase, len(scripts) - 1)
            sc = scripts[phase]
            base = ntce + sum(len(render(scripts[p])) for p in range(phase)) + phase
            if d['pc'] < len(sc):
                oi = op_index(sc, d['pc'])
                if oi is None:
                    break        # undecodable tail: nothing defined to point at
                target = base + oi
            else:
                # at the end of this script: the next step is the switch to the following section (its header), or the final bookkeeping step
                target = base + len(render(sc)) if phase + 1 < len(scripts) and more_to_come(d, phase, scripts, sess) else None
        if target is None:
            if marked:
                raise Violation(case, 'a line is marked as pending although nothing remains to execute (after %d commands)' % k, observed=[pl[i][1] for i in marked])
        else:
            if marked != [target]:
                raise Violation(case, 'after %d commands the marker is at line(s) %s, the next step executes line %d (%r)' % (k, marked, target, lines[target] if target < len(lines) else None),
                                observed=[(i, pl[i][1]) for i in marked], expected=[target, lines[target] if target < len(lines) else None])
        # the script column of the table a step / rewind prints holds what is still to be executed: the listing from the pending line on
        if k > 0 and g['log'][k - 1]['acc']:
            col = parse_table_column(echoes[k])
            if col is not None:
                if d['tce']:
                    want = ['<<< taproot commitment >>>'] + lines[target:ntce] + ['<<< committed script >>>'] + lines[ntce:]
                else:
                    want = [] if target is None else lines[target:]
                ctx.count('table-column-compared')
                if not column_matches(col, want):
                    bad = next((i for i in range(min(len(col), len(want))) if not column_matches(col[i:i + 1], want[i:i + 1])), min(len(col), len(want)))
                    raise Violation(case, 'after %d commands the script column of the state table differs at its line %d from what is still to be executed: %r vs %r' % (k, bad, col[bad:bad + 1], want[bad:bad + 1]),
                                    observed=col[:6], expected=want[:6])
        # the line echoed by step / rewind is the marked line
        if k > 0 and g['log'][k - 1]['acc']:
            el = [l for l in echoes[k].split('\n') if l.strip()]
            last = el[-1].strip() if el else ''
            if target is not None and target < len(lines):
                if not last.endswith(lines[target]) or not last.startswith('#%04d' % target) and lines[target] not in ('<<< scriptPubKey >>>', '<<< P2SH script >>>'):
                    raise Violation(case, 'the line echoed after command %d (%r) is not the pending operation %r' % (k, last[:80], lines[target][:80]), observed=last[:120], expected=lines[target][:120])


def more_to_come(d, phase, scripts, sess):
    if 'spendtx' in sess['kw']:
        if phase == 0:
            return d['succ'] > 0
        if phase == 1:
            return bool(d['p2sh'])
        return False
    return bool(d['p2sh'])


@st.composite
def cases(draw, maxlen):
    sess = draw(sessions())
    if sess['kind'] == 'plain-long':
        n = len(R.decode(sess['kw']['script']))
        if n <= 140:
            return (sess, ['s'] * draw(st.sampled_from([95, 99, 100, 101, n - 1, n, n + 1])) + draw(c04.histories(6)))
        return (sess, draw(c04.histories(4)))
    return (sess, draw(c04.histories(maxlen)))


def w_undecodable(ctx, wid, seed):
    """a legacy spend whose scriptSig or scriptPubKey ends in a push that runs past the end of the script has bytes that cannot be listed: such a
    session is refused at set-up with a diagnostic (it used to start, with the undecodable rest missing from the listing and the marker on another line)"""
    import random
    from ..gen import spends
    rnd = random.Random(seed)
    bad_redeem = [b'\x51\x05\x01', b'\x4c', b'\x51\x4d\xff']
    p2sh_pairs = [(R.push_enc(rd), b'\xa9\x14' + R.ripemd(R.sha256(rd)) + b'\x87') for rd in bad_redeem]
    for ss, spk in tuple(p2sh_pairs) + ((b'\x51\x02\xaa', b'\x51'), (b'\x51', b'\x51\x02\xaa'), (b'\x05\xaa', b'\x51\x87'), (b'\x51', b'\x4c'), (b'\x4d\xff', b'\x51'), (b'\x51', b'\x51\x4e\x01\x00')):
        fund, pos = spends.mk_funding(rnd, spk, 1000)
        tx, idx, _ = spends.mk_spending(rnd, fund, pos, 1)
        tx.vin[idx]['script'] = ss
        argv = ['--tx=' + tx.ser().hex(), '--txin=' + fund.ser().hex()]
        case = dict(kind='undecodable', scriptsig=ss.hex(), scriptpubkey=spk.hex())
        ctx.case('undecodable:%s:%s' % (ss.hex(), spk.hex()), True, case, 'undecodable-legacy-script')
        r = cli.run(cli.binpath('btcdeb'), argv, stdin_tty=True, stdout_tty=True, timeout=20)
        if r.timed_out:
            # the interactive prompt came up: a session was started
            ctx.violations.append(dict(campaign='undecodable', why='a legacy spend with an undecodable scriptSig / scriptPubKey (%s / %s) starts an interactive session: its listing cannot show the bytes that will be executed' % (ss.hex(), spk.hex()),
                                       case=case, refails=3))
            return
        if r.abnormal or r.rc != 1 or b'invalid script' not in r.err:
            ctx.violations.append(dict(campaign='undecodable', why='a legacy spend with an undecodable script must be refused with a diagnostic: rc=%s err=%r' % (r.rc, r.err[-200:]), case=case, refails=3))
            return


def w_sessions(ctx, wid, seed, examples, maxlen):
    core.hyp_campaign(ctx, 'listing', cases(maxlen), check_session, examples, seed, case_json)


def run(tier, t0):
    n, L = (300, 14) if tier == 'quick' else (3000, 40)
    m = core.parallel(PID, [(w_sessions, dict(examples=n, maxlen=L)) for _ in range(core.WORKERS)] + [(w_undecodable, dict())])
    return core.finish(PID, tier, m, RULE, t0, min_nontrivial=150 if tier == 'quick' else 8000,
                       assumptions=['opcode names as Core\'s GetOpName prints them ("0", "-1", "1".."16", OP_*)', 'ground truth for "what executes next" = the same history replayed through the harness (C01/C04 establish that stepping is right)',
                                    'the listing cannot distinguish push encodings of the same bytes and is not asked to'])


def replay(rec):
    case = c04.case_from_json(rec['case'])
    try:
        check_session(case, core.Ctx(PID))
    except Violation as v:
        return False, 'still failing: %s\n  expected %r\n  observed %r' % (v.why, v.expected, v.observed)
    return True, 'ok'
