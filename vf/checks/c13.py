"""C13 - transaction decoding is lossless and identifiers are correct.

Generated transactions (vf.ref.tx encoder: 0..n inputs/outputs, script lengths across 252/253/65535/65536, witness
present/absent/mixed, empty witness items, negative versions, max values), their hex with whitespace, every strict prefix,
flag-byte / count / compact-size corruptions, and --tx amount prefixes. Oracle: the reference codec (accept <=> accept, fields
equal, byte-identical re-serialisation, txid = double-SHA256 (OpenSSL) of the stripped encoding, wtxid of the full one, exact
decimal * 10^8 amounts). Observation: harness `tx` (Instance::parse_transaction, what --tx does) and a CLI sample."""
import re
from decimal import Decimal

from hypothesis import strategies as st

from .. import cli, core
from ..core import Violation
from ..harness import Harness, kvline
from ..ref import tx as T

PID = 'C13'
RULE = ('transactions from the reference encoder and corruptions of them; non-trivial = segwit encoding, or a length field at a compact-size boundary (252/253/65535/65536), or a truncation / corruption '
        'case, or an amount string with a fractional part; distinct = hash of the input text')
_H = {}


def harness():
    if 'h' not in _H:
        _H['h'] = Harness('plain')
    return _H['h']


script_len = st.one_of(st.integers(0, 40), st.sampled_from([0, 1, 75, 76, 252, 253, 254, 255, 256, 520, 521]), st.sampled_from([65535, 65536]).filter(lambda x: True))


@st.composite
def blob(draw, big_ok=True):
    n = draw(script_len if big_ok else st.integers(0, 80))
    if n > 600:
        return bytes([draw(st.integers(0, 255))]) * n
    return draw(st.binary(min_size=n, max_size=n))


@st.composite
def txs(draw):
    t = T.Tx()
    t.version = draw(st.sampled_from([1, 2, 2, 0, -1, 0x7fffffff, -0x80000000, 3]))
    t.locktime = draw(st.sampled_from([0, 1, 499999999, 500000000, 0xffffffff, 0x12345678]))
    nin = draw(st.sampled_from([0, 1, 1, 1, 2, 3, 5, 252, 253])) if draw(st.integers(0, 19)) == 0 else draw(st.integers(1, 4))
    nout = draw(st.sampled_from([0, 1, 2, 3, 252, 253])) if draw(st.integers(0, 19)) == 0 else draw(st.integers(0, 4))
    if nin == 0:
        nout = 0
    big_budget = 1
    t.vin = []
    for i in range(nin):
        big = big_budget > 0 and nin < 10
        s = draw(blob(big_ok=big))
        if len(s) > 600:
            big_budget -= 1
        t.vin.append(dict(txid=draw(st.binary(min_size=32, max_size=32)), n=draw(st.sampled_from([0, 1, 2, 0xffffffff, 0x01020304])), script=s,
                          seq=draw(st.sampled_from([0, 1, 0xfffffffe, 0xffffffff, 0x80000000, 0x00400001])), wit=[]))
    t.vout = []
    for i in range(nout):
        big = big_budget > 0 and nout < 10
        s = draw(blob(big_ok=big))
        if len(s) > 600:
            big_budget -= 1
        t.vout.append(dict(value=draw(st.sampled_from([0, 1, 546, 100000000, 2100000000000000, 0x7fffffffffffffff, -1])), spk=s))
    wmode = draw(st.sampled_from(['none', 'none', 'all', 'mixed']))
    if nin and wmode != 'none':
        for i, vin in enumerate(t.vin):
            if wmode == 'all' or draw(st.booleans()):
                k = draw(st.sampled_from([1, 1, 2, 3, 5]))
                vin['wit'] = [draw(blob(big_ok=False)) if draw(st.integers(0, 4)) else b'' for _ in range(k)]
        if not any(v['wit'] for v in t.vin):
            t.vin[0]['wit'] = [b'\x01']
    return t


def classes(t, enc):
    c = set()
    if any(v['wit'] for v in t.vin):
        c.add('segwit')
    for n in [len(t.vin), len(t.vout)] + [len(v['script']) for v in t.vin] + [len(o['spk']) for o in t.vout] + [len(w) for v in t.vin for w in v['wit']]:
        if n in (252, 253, 254, 65535, 65536):
            c.add('compact-size-boundary')
    return c


def fields_of(t):
    return dict(version=t.version, locktime=t.locktime,
                vin=[dict(txid=v['txid'][::-1].hex(), n=v['n'], ss=v['script'].hex(), seq=v['seq'], wit=[w.hex() for w in v['wit']]) for v in t.vin],
                vout=[dict(v=o['value'], spk=o['spk'].hex()) for o in t.vout])


def ask(text, amounts=0):
    return harness().req(kvline('tx', text=text.encode().hex(), amounts=amounts))


def compare_accept(case, text_hex, r, t):
    """tree accepted `r`, reference decoded `t` from the same bytes"""
    f = fields_of(t)
    got = dict(version=r['version'], locktime=r['locktime'], vin=r['vin'], vout=r['vout'])
    if got != f:
        for k in f:
            if got[k] != f[k]:
                raise Violation(case, 'field %s read differently from the encoding' % k, observed=str(got[k])[:300], expected=str(f[k])[:300])
    full = t.ser(True)
    if r['ser'] != full.hex():
        raise Violation(case, 're-serialisation is not byte-identical', observed=r['ser'][:200], expected=full.hex()[:200])
    if r['txid'] != T.dsha(t.ser(False))[::-1].hex():
        raise Violation(case, 'txid is not the double-SHA256 of the witness-stripped encoding', observed=r['txid'], expected=T.dsha(t.ser(False))[::-1].hex())
    if r['wtxid'] != T.dsha(full)[::-1].hex():
        raise Violation(case, 'wtxid is not the double-SHA256 of the full encoding', observed=r['wtxid'], expected=T.dsha(full)[::-1].hex())


def check_valid(t, ctx):
    enc = t.ser(True)
    cl = classes(t, enc)
    case = dict(kind='valid', hex=enc.hex() if len(enc) < 2000 else None, summary=dict(nin=len(t.vin), nout=len(t.vout), bytes=len(enc), classes=sorted(cl)), full=enc.hex())
    ctx.case(enc, bool(cl), dict(case, full=None), 'valid:' + ','.join(sorted(cl)))
    # self-check of the reference: parse(ser(t)) == t and consumed everything
    back = T.Tx.parse(enc)
    assert back.ser(True) == enc and back.consumed == len(enc)
    r = ask(enc.hex())
    if r.get('timeout'):
        ctx.inconclusive += 1
        return
    if 'crash' in r or 'exit' in r:
        raise Violation(case, 'decoder died on a well-formed transaction: %r' % r, observed=r)
    if not r.get('ok'):
        raise Violation(case, 'well-formed transaction rejected (%s)' % r.get('exc'), observed=r)
    compare_accept(case, enc.hex(), r, t)
    # whitespace between bytes is allowed by the hex reader
    if len(enc) < 400:
        spaced = ' '.join(enc[i:i + 1].hex() for i in range(len(enc)))
        r2 = ask(spaced)
        if not r2.get('ok') or r2.get('ser') != enc.hex():
            raise Violation(dict(case, spaced=True), 'hex with spaces between bytes is not decoded to the same transaction', observed=str(r2)[:300])


def check_prefixes(t, ctx):
    enc = t.ser(True)
    if len(enc) > 700:
        return
    for k in range(len(enc)):
        pre = enc[:k]
        try:
            T.Tx.parse(pre)
            raise AssertionError('reference accepted a strict prefix')
        except ValueError:
            pass
        except Exception:
            pass
        case = dict(kind='prefix', full=enc.hex(), cut=k)
        ctx.case(pre + b'|p', True, dict(kind='prefix', cut=k, of_bytes=len(enc)) if k % 40 == 0 else None, 'truncation')
        r = ask(pre.hex()) if k else ask('')
        if 'crash' in r or 'exit' in r:
            raise Violation(case, 'decoder died on a truncated transaction: %r' % r, observed=r)
        if r.get('ok'):
            raise Violation(case, 'truncated encoding (first %d of %d bytes) was accepted' % (k, len(enc)), observed=str(r)[:300])


@st.composite
def corruptions(draw):
    t = draw(txs())
    enc = bytearray(t.ser(True))
    kind = draw(st.sampled_from(['flagbyte', 'marker-on-legacy', 'byte', 'count', 'noncanonical-cs', 'all-empty-witness', 'insert', 'delete', 'trailing']))
    if kind == 'flagbyte' and len(enc) > 6 and enc[4] == 0:
        enc[5] = draw(st.sampled_from([0x00, 0x02, 0x03, 0x80, 0xff, 0x81]))
    elif kind == 'marker-on-legacy':
        enc[4:4] = bytes([0x00, draw(st.sampled_from([0x01, 0x02, 0x00]))])
    elif kind == 'byte' and enc:
        i = draw(st.integers(0, min(len(enc) - 1, 80)))
        enc[i] = draw(st.integers(0, 255))
    elif kind == 'count':
        i = 4 if enc[4] != 0 else 6
        enc[i:i + 1] = draw(st.sampled_from([b'\xfd\xff\xff', b'\xfe\xff\xff\xff\x01', b'\xff' + b'\xff' * 8, b'\xfe\x00\x00\x00\x02', b'\xfe\x01\x00\x00\x02', b'\xfc']))
    elif kind == 'noncanonical-cs':
        i = 4 if enc[4] != 0 else 6
        n = enc[i]
        if n < 253:
            enc[i:i + 1] = draw(st.sampled_from([b'\xfd' + bytes([n, 0]), b'\xfe' + bytes([n, 0, 0, 0]), b'\xff' + bytes([n, 0, 0, 0, 0, 0, 0, 0])]))
    elif kind == 'all-empty-witness':
        for v in t.vin:
            v['wit'] = []
        body = t.ser(False)
        enc = bytearray(body[:4] + b'\x00\x01' + body[4:-4] + b'\x00' * len(t.vin) + body[-4:])
    elif kind == 'trailing':
        enc += draw(st.one_of(st.sampled_from([b'\x00', b'\x00\xff', b'\x00' * 4, bytes(enc[:10])]), st.binary(min_size=1, max_size=40)))
    elif kind == 'insert' and enc:
        i = draw(st.integers(0, min(len(enc), 60)))
        enc[i:i] = bytes([draw(st.integers(0, 255))])
    elif kind == 'delete' and len(enc) > 1:
        i = draw(st.integers(0, min(len(enc) - 1, 60)))
        del enc[i]
    return (kind, bytes(enc))


def check_corruption(c, ctx):
    kind, enc = c
    case = dict(kind='corruption:' + kind, hex=enc.hex() if len(enc) < 3000 else enc[:200].hex() + '...', full=enc.hex())
    ctx.case(enc + b'|c', True, dict(kind=kind, bytes=len(enc), hex=enc[:60].hex()), 'corruption:' + kind)
    ref = None
    try:
        ref = T.Tx.parse(enc)
    except Exception:
        ref = None
    r = ask(enc.hex())
    if r.get('timeout'):
        ctx.inconclusive += 1
        return
    if 'crash' in r or 'exit' in r:
        raise Violation(case, 'decoder died on a structurally corrupted transaction: %r' % r, observed=r)
    if ref is not None and ref.consumed < len(enc):
        # a complete transaction followed by more bytes: not the encoding of a transaction (re-serialising could not reproduce it)
        if r.get('ok'):
            raise Violation(case, 'a transaction followed by %d more byte(s) was accepted (only a prefix of the input was decoded)' % (len(enc) - ref.consumed), observed=str(r)[:300])
        ctx.count('trailing-bytes-rejected:' + kind)
    elif ref is None:
        if r.get('ok'):
            raise Violation(case, 'structurally invalid encoding (%s) accepted' % kind, observed=str(r)[:400])
        ctx.count('corruption-rejected:' + kind)
    else:
        if not r.get('ok'):
            raise Violation(case, 'encoding that the reference decodes (%s) was rejected: %s' % (kind, r.get('exc')), observed=str(r)[:300])
        compare_accept(case, enc.hex(), r, ref)
        ctx.count('corruption-still-valid:' + kind)


@st.composite
def amount_cases(draw):
    n = draw(st.integers(1, 3))
    strs = []
    for _ in range(n):
        k = draw(st.integers(0, 9))
        if k < 5:
            ip = draw(st.one_of(st.integers(0, 21000000), st.sampled_from([0, 1, 20999999, 21000000, 92233720368])))
            fd = draw(st.integers(0, 8))
            frac = ''.join(str(draw(st.integers(0, 9))) for _ in range(fd))
            strs.append(str(ip) + ('.' + frac if fd else ''))
        elif k < 7:
            # sparse digits: long runs of zeros around the decimal point with a few non-zero digits (100.00000001, 20000000.00000001, 1000.0000001)
            dig = st.sampled_from('0000000000000012359')
            il = draw(st.integers(1, 11))
            ip = draw(st.sampled_from('123459')) + ''.join(draw(dig) for _ in range(il - 1)) if draw(st.integers(0, 5)) else '0'
            fd = draw(st.sampled_from([0, 1, 6, 7, 8, 8, 8, 8]))
            frac = ''.join(draw(dig) for _ in range(fd))
            if fd and draw(st.booleans()):
                frac = frac[:-1] + draw(st.sampled_from('1379'))
            strs.append(ip + ('.' + frac if fd else ''))
        elif k < 8:
            strs.append(draw(st.sampled_from(['0', '0.1', '100.00000001', '1000.0000001', '20000000.00000001', '10000000000', '10000000001', '1000000000.00000001', '21000000', '0.00000001', '0.000000001', '0.100000000', '1.123456789', '92233720368.54775807', '92233720368.54775808', '0.0', '1e0', '1e-8', '1e-9'])))
        else:
            strs.append(draw(st.sampled_from(['', '+1', '.5', '1.', '01', '-1', '- 1', '1 ', ' 1', '1,5', 'abc', '0x10', '1.2.3', '--1'])))
    return strs


def exact_amount(s):
    """returns int satoshis if `s` is a plain decimal (optional '-', digits, optional .digits) representing an integer number of satoshis, else None"""
    if not re.fullmatch(r'-?(0|[1-9][0-9]*)(\.[0-9]+)?', s):
        return None
    v = Decimal(s) * 100000000
    if v != v.to_integral_value():
        return None
    v = int(v)
    if abs(v) > 10 ** 18 - 1:       # the tool documents an 18 digit bound (UPPER_BOUND)
        return 'any'
    return v


TX1 = None


def check_amounts(strs, ctx):
    global TX1
    if TX1 is None:
        t = T.Tx()
        t.vin = [dict(txid=bytes(32), n=i, script=b'', seq=0xffffffff, wit=[]) for i in range(3)]
        t.vout = [dict(value=1, spk=b'\x51')]
        TX1 = t.ser().hex()
    if any((',' in s or ':' in s) for s in strs):
        return
    text = ','.join(strs) + ':' + TX1
    case = dict(kind='amounts', amounts=strs)
    plain = all(re.fullmatch(r'(0|[1-9][0-9]*)(\.[0-9]{1,8})?', s) for s in strs)
    ctx.case(text, any('.' in s for s in strs) or not plain, case, 'amounts' + (':plain' if plain else ':boundary'))
    if any(re.search(r'[1-9][0-9]*0{9}[1-9]', x.replace('.', '')) for x in strs if exact_amount(x) is not None):
        ctx.count('amount-with-9-zero-run-inside')
    r = ask(text, amounts=1)
    if 'crash' in r or 'exit' in r:
        raise Violation(case, 'amount parsing died: %r' % r, observed=r)
    exp = [exact_amount(s) for s in strs]
    if plain and 'any' in exp:
        ctx.count('amount-beyond-18-digits')
        return
    if plain:
        if not r.get('ok'):
            raise Violation(case, 'well-formed amount list rejected', observed=r)
        if r['amounts'][:len(strs)] != exp:
            raise Violation(case, 'amounts %r converted to %r satoshis, exact values are %r' % (strs, r['amounts'][:len(strs)], exp), observed=r['amounts'], expected=exp)
        if any(a != 0 for a in r['amounts'][len(strs):]):
            raise Violation(case, 'inputs without a listed amount must get 0', observed=r['amounts'])
    else:
        if r.get('ok'):
            # accepted boundary forms must still be exact
            for s, e, g in zip(strs, exp, r['amounts']):
                if e == 'any':
                    continue
                if e is None and not re.fullmatch(r'-?(0|[1-9][0-9]*)(\.[0-9]+)?([eE][+-]?[0-9]+)?', s):
                    raise Violation(case, 'malformed amount %r was accepted as %r' % (s, g), observed=r['amounts'])
                if e is not None and g != e:
                    raise Violation(case, 'amount %r converted to %r, exact value is %r' % (s, g, e), observed=g, expected=e)
                if e is None and 'e' not in s.lower():
                    raise Violation(case, 'amount %r is not an integer number of satoshis but was accepted as %r' % (s, g), observed=g)
            ctx.count('boundary-accepted')
        else:
            ctx.count('boundary-rejected')


def w_pair_cli(ctx, wid, seed):
    """a REAL funding / spending pair through the real binary: the pair as it is runs; every structurally invalid variant of EITHER text (trailing bytes, a second
    transaction appended, truncation) is rejected with a diagnostic - a check with an unrelated --txin would be rejected anyway, for the wrong reason"""
    import random
    from ..gen import spends
    rnd = random.Random(seed)
    for typ in ('p2pkh', 'p2wpkh', 'p2sh-multisig'):
        c = spends.build(rnd, typ, ninputs=1)
        txh, inh = c['tx'].ser().hex(), c['fund'].ser().hex()
        r = cli.run(cli.binpath('btcdeb'), ['--tx=' + txh, '--txin=' + inh], stdin=b'\n')
        ctx.case('pair:%s:valid' % typ, True, dict(kind='pair', type=typ, variant='valid'), 'cli-pair')
        if r.timed_out:
            ctx.inconclusive += 1
            continue
        if r.abnormal or r.rc != 0 or r.out.strip() != b'01':
            ctx.violations.append(dict(campaign='pair-cli', why='a valid %s pair does not run to 01: rc=%s out=%r err=%r' % (typ, r.rc, r.out[-40:], r.err[-160:]), case=dict(kind='pair', type=typ, variant='valid'), refails=3))
            return
        for which in ('tx', 'txin'):
            for name, f in (('trailing-byte', lambda h: h + '00'), ('trailing-4-bytes', lambda h: h + '00000000'), ('second-transaction-appended', lambda h: h + h), ('truncated', lambda h: h[:-2])):
                a, b = (f(txh), inh) if which == 'tx' else (txh, f(inh))
                r = cli.run(cli.binpath('btcdeb'), ['--tx=' + a, '--txin=' + b], stdin=b'\n')
                case = dict(kind='pair', type=typ, variant='%s:%s' % (which, name))
                ctx.case('pair:%s:%s:%s' % (typ, which, name), True, case, 'cli-pair')
                if r.timed_out:
                    ctx.inconclusive += 1
                    continue
                if r.abnormal or r.rc != 1 or not r.err.strip():
                    ctx.violations.append(dict(campaign='pair-cli', why='%s on the --%s text of a %s pair was not rejected with a diagnostic: rc=%s out=%r err=%r' % (name, which, typ, r.rc, r.out[-40:], r.err[-160:]), case=case, refails=3))
                    return


def w_huge(ctx, wid, seed):
    """element COUNTS far beyond the compact-size boundaries (the vector decoder reads long vectors in batches): a witness stack of ~208 k items, ~125 k outputs,
    ~48 k inputs - well-formed transactions of 0.2 - 2 MB, through the in-process decoder only (no command line carries them)"""
    def base():
        t = T.Tx()
        t.version = 2
        t.locktime = 7
        t.vin = [dict(txid=bytes(range(32)), n=1, script=b'', seq=0xfffffffe, wit=[])]
        t.vout = [dict(value=1000, spk=b'\x51')]
        return t
    for name in ('witness-items-208334', 'witness-items-210000', 'outputs-125001', 'outputs-130000', 'inputs-48200', 'inputs-100000'):
        t = base()
        kind, n = name.rsplit('-', 1)
        n = int(n)
        if kind == 'witness-items':
            t.vin[0]['wit'] = [b''] * n if n == 208334 else [bytes([i & 0xff]) for i in range(n)]
            t.vin.append(dict(txid=bytes(32), n=0, script=b'\x51', seq=1, wit=[bytes(range(200)) * 3]))
        elif kind == 'outputs':
            t.vout = [dict(value=i, spk=bytes([0x51 + (i % 16)])) for i in range(n)]
        else:
            t.vin = [dict(txid=i.to_bytes(32, 'little'), n=i & 0xffff, script=b'', seq=i, wit=[]) for i in range(n)]
        ctx.count('huge:' + kind)
        try:
            check_valid(t, ctx)
        except Violation as v:
            ctx.violations.append(dict(campaign='huge', why='%s (%s)' % (v.why, name), case=dict(kind='huge-counts', name=name), observed=str(v.observed)[:300], refails=3))
            return


def w_valid(ctx, wid, seed, examples):
    core.hyp_campaign(ctx, 'valid', txs(), check_valid, examples, seed, lambda t: dict(full=t.ser(True).hex()))


def w_prefix(ctx, wid, seed, examples):
    core.hyp_campaign(ctx, 'prefixes', txs(), check_prefixes, examples, seed, lambda t: dict(full=t.ser(True).hex()))


def w_corrupt(ctx, wid, seed, examples):
    core.hyp_campaign(ctx, 'corruptions', corruptions(), check_corruption, examples, seed, lambda c: dict(kind=c[0], full=c[1].hex()))


def w_amounts(ctx, wid, seed, examples):
    core.hyp_campaign(ctx, 'amounts', amount_cases(), check_amounts, examples, seed, lambda s: dict(amounts=s))


def w_cli(ctx, wid, seed, examples):
    """the displayed txid (`btcdeb -v --tx=` on ptys) and the error path of the real binary"""
    import hypothesis
    from hypothesis import given, settings, HealthCheck, Phase
    out = []

    @settings(max_examples=examples, database=None, deadline=None, suppress_health_check=list(HealthCheck), phases=[Phase.generate], verbosity=hypothesis.Verbosity.quiet)
    @hypothesis.seed(seed)
    @given(txs())
    def collect(t):
        out.append(t)
    collect()
    for t in out:
        enc = t.ser(True)
        if len(enc) > 3000 or not t.vin:
            continue        # (a transaction without inputs cannot be the spending transaction of a session; that crash class is C15's)
        rp = cli.Repl(['-v', '--tx=' + enc.hex()])
        blocks, err, status = rp.session([], timeout=10)
        if status != 'ok':
            ctx.inconclusive += 1
            ctx.notes.append('cli sample: session status %s for a %d-byte tx with %d inputs (stderr tail %r)' % (status, len(enc), len(t.vin), err[-120:]))
            continue
        m = re.search(r'got (segwit )?transaction ([0-9a-f]{64}):', err)
        want = T.dsha(t.ser(False))[::-1].hex()
        ctx.case(enc + b'|cli', True, dict(kind='cli-txid', txid=want), 'cli-txid')
        if not m or m.group(2) != want:
            ctx.violations.append(dict(campaign='cli', why='displayed txid %r is not the double-SHA256 of the stripped encoding %s' % (m.group(2) if m else None, want), case=dict(full=enc.hex()), refails=3))
            return
        # the amounts of the field dump: every output value as encoded (a decimal number of coins with eight fractional digits, the sign in front)
        shown = re.findall(r'CTxOut\(nValue=(-?[0-9]+\.[-0-9]+),', err)
        wantv = [('-' if o['value'] < 0 else '') + '%d.%08d' % (abs(o['value']) // 10 ** 8, abs(o['value']) % 10 ** 8) for o in t.vout]
        if shown[:len(wantv)] != wantv:
            bad = next((i for i in range(min(len(shown), len(wantv))) if shown[i] != wantv[i]), min(len(shown), len(wantv)))
            ctx.violations.append(dict(campaign='cli', why='the field dump shows the amount of output %d as %r, the encoded value is %s' % (bad, shown[bad] if bad < len(shown) else None, wantv[bad] if bad < len(wantv) else None),
                                       case=dict(full=enc.hex()), observed=shown[:6], expected=wantv[:6], refails=3))
            return
        if any(o['value'] < 0 for o in t.vout):
            ctx.count('cli:negative-amount-displayed')
        # a truncated --tx must be rejected with a diagnostic, non-interactively
        # "rejected with a diagnostic": every kind of invalid text, as --tx and as --txin, non-interactively (with and without --quiet): exit 1, no abnormal end,
        # and something on stderr that says so
        hx = enc.hex()
        bad = [('truncated', enc[:-1].hex()), ('trailing-byte', hx + '00'), ('odd-number-of-hex-digits', hx[:-1]), ('non-hex-character', hx[:-2] + 'zz'), ('empty', '')]
        for what, text in bad:
            for opt in ('--tx=', '--txin='):
                for quiet in ([], ['--quiet']):
                    argv = quiet + ([opt + text] if opt == '--tx=' else ['--tx=' + hx, opt + text])
                    r = cli.run(cli.binpath('btcdeb'), argv, stdin=b'0x51\n')
                    ctx.count('cli-invalid:' + what)
                    if r.timed_out:
                        ctx.inconclusive += 1
                        continue
                    if r.abnormal or r.rc != 1 or not r.err.strip():
                        ctx.violations.append(dict(campaign='cli', why='%s transaction text given as %s%s not rejected with a diagnostic: rc=%s stderr=%r (%s)' % (
                            what, opt, ' with --quiet' if quiet else '', r.rc, r.err.decode(errors='replace')[-120:], r.abnormal or 'regular exit'), case=dict(full=text, option=opt, quiet=bool(quiet)), refails=3))
                        return


def run(tier, t0):
    W = core.WORKERS
    if tier == 'quick':
        nv, npf, nc, na, ncli = 600, 12, 500, 300, 14
    else:
        nv, npf, nc, na, ncli = 30000, 400, 30000, 10000, 150
    tasks = [(w_valid, dict(examples=nv)) for _ in range(W)] + [(w_prefix, dict(examples=npf)) for _ in range(W // 2)] + [(w_corrupt, dict(examples=nc)) for _ in range(W)] + \
            [(w_amounts, dict(examples=na)) for _ in range(4)] + [(w_cli, dict(examples=ncli)) for _ in range(2)] + [(w_huge, dict()), (w_pair_cli, dict())]
    m = core.parallel(PID, tasks)
    return core.finish(PID, tier, m, RULE, t0, min_nontrivial=3000 if tier == 'quick' else 100000,
                       assumptions=['reference codec vf/ref/tx.py (BIP144 as Core deserialises: a 00 after the version is the segwit marker)', 'OpenSSL SHA-256 via hashlib',
                                    'boundary amount forms (exponents, signs) only need to be exact when accepted'])


def replay(rec):
    if isinstance(rec.get('case'), dict) and rec['case'].get('kind') == 'pair':
        ctx = core.Ctx(PID)
        w_pair_cli(ctx, 0, 0)
        return (not ctx.violations), str(ctx.violations[:1])[:300]
    if isinstance(rec.get('case'), dict) and rec['case'].get('kind') == 'huge-counts':
        ctx = core.Ctx(PID)
        w_huge(ctx, 0, 0)
        return (not ctx.violations), str(ctx.violations[:1])[:300]
    c = rec['case']
    ctx = core.Ctx(PID)
    try:
        if 'amounts' in c:
            check_amounts(c['amounts'], ctx)
        elif c.get('kind', '').startswith('corruption') or rec.get('campaign') == 'corruptions':
            check_corruption((c.get('kind', 'x').split(':')[-1], bytes.fromhex(c['full'])), ctx)
        elif 'cut' in c:
            r = ask(bytes.fromhex(c['full'])[:c['cut']].hex())
            return (not r.get('ok')), 'prefix %d: %r' % (c['cut'], str(r)[:200])
        else:
            t = T.Tx.parse(bytes.fromhex(c['full']))
            check_valid(t, ctx)
            check_prefixes(t, ctx)
    except Violation as v:
        return False, 'still failing: %s\n  expected %r\n  observed %r' % (v.why, v.expected, v.observed)
    return True, 'ok'
