"""C14 - value transforms compute their defined functions and invert each other.

Every entry of the `tf` table (27 without ENABLE_DANGEROUS) is exercised with generated arguments (lengths across hash-block and
compact-size boundaries, integers, strings, encoded strings and all single-character corruptions of them) in the command form
(`fn_tf`, the REPL's command body, through the harness; a sample through the real REPL on ptys), the inline form name(arg) and -
where one exists - the opcode form. Oracles: hashlib (OpenSSL), tagged-hash definition, reference base58 / bech32 / secp256k1
codecs, big-integer arithmetic, Euler's criterion / the textbook Jacobi algorithm."""
import hashlib
import re

from hypothesis import strategies as st

from .. import cli, core
from ..core import Violation
from ..harness import Harness, kvline
from ..ref import base58 as B58, bech32 as B32, script as R, secp
from ..ref.script import F

PID = 'C14'
RULE = ('(transform, arguments, form): arguments from boundary-length byte strings (0,1,55,56,63,64,65,119,120,252,253,65535,65536), integers, strings, encoded strings and their single-character '
        'corruptions; forms = command (`tf`), inline name(arg), opcode where one exists; non-trivial = argument length in a boundary class, or a corruption case, or a multi-argument transform; distinct = hash of the command text')
_H = {}
INLINE = {'addr-to-scriptpubkey': 'addr_to_spk', 'add': 'add', 'bech32-decode': 'bech32dec', 'bech32-encode': 'bech32enc', 'base58chk-decode': 'base58chkdec', 'base58chk-encode': 'base58chkenc',
          'combine-pubkeys': 'combine_pubkeys', 'echo': 'echo', 'hash160': 'hash160', 'hash256': 'hash256', 'hex': 'hex', 'int': 'int', 'jacobi-symbol': 'jacobi',
          'prefix-compact-size': 'prefix_compact_size', 'pubkey-to-xpubkey': 'pubkey_to_xpubkey', 'reverse': 'reverse', 'ripemd160': 'ripemd160', 'sha256': 'sha256',
          'scriptpubkey-to-addr': 'spk_to_addr', 'sub': 'sub', 'tagged-hash': 'tagged_hash', 'taproot-tweak-pubkey': 'taproot_tweak_pubkey', 'tweak-pubkey': 'tweak_pubkey', 'verify-sig': 'verify_sig'}
ALL_TF = sorted(list(INLINE) + ['bech32m-encode', 'len', 'verify-sig-compact'])
assert len(ALL_TF) == 27


def harness():
    if 'h' not in _H:
        _H['h'] = Harness('plain')
    return _H['h']


def tf(text):
    r = harness().req(kvline('tf', arg=text.encode().hex()))
    if 'crash' in r or 'exit' in r:
        raise Violation(('tf', text), '`tf %s` killed the process: %r' % (text[:80], r), observed=r)
    return r


def inline(text):
    """the value an inline expression evaluates to; 'data' is what the value PUSHES when it stands in a script (a value whose type says string or
    opcode pushes its text / its opcode byte, whatever its data field holds)"""
    r = harness().req(kvline('val', expr=text.encode().hex(), conv=2))
    if 'crash' in r or 'exit' in r:
        raise Violation(('inline', text), 'inline expression %s killed the process: %r' % (text[:80], r), observed=r)
    if 'data_value' in r:
        r['data'] = r['data_value']
    return r


def inline_in_script(c, expr, want):
    """the same expression as a token of a bracketed script: the script is the push of the expression's value"""
    r = inline('[OP_1 %s OP_DROP]' % expr)
    expect_eq(c, 'inline %s inside a bracketed script' % expr[:60], r.get('data'), (b'\x51' + G_push(want) + b'\x75').hex())


def G_push(data):
    from ..gen import scripts as G
    return G.push(data, 0)


def out_line(r):
    """last non-empty stdout line of a tf run"""
    ls = [l for l in r.get('out', '').split('\n') if l.strip()]
    return ls[-1].strip() if ls else ''


LENS = [0, 1, 2, 31, 32, 33, 55, 56, 57, 63, 64, 65, 119, 120, 121, 127, 128, 252, 253, 254, 255, 256, 1000, 65535, 65536]
blobs = st.one_of(st.sampled_from(LENS).flatmap(lambda n: st.binary(min_size=n, max_size=n) if n <= 300 else st.integers(0, 255).map(lambda b: bytes([b]) * n)), st.binary(min_size=5, max_size=80))


def boundary_len(n):
    return n in LENS or n >= 253


def h160(b):
    return hashlib.new('ripemd160', hashlib.sha256(b).digest()).digest()


HASHES = {'sha256': lambda b: hashlib.sha256(b).digest(), 'ripemd160': lambda b: hashlib.new('ripemd160', b).digest(),
          'hash256': lambda b: hashlib.sha256(hashlib.sha256(b).digest()).digest(), 'hash160': h160}
HASH_OPS = {'sha256': 0xa8, 'ripemd160': 0xa6, 'hash256': 0xaa, 'hash160': 0xa9}


# ---------------------------------------------------------------- cases: (kind, payload...)
@st.composite
def cases(draw):
    k = draw(st.sampled_from(['hash', 'hash', 'hash-str', 'tagged', 'b58', 'b58-corrupt', 'bech32', 'bech32-corrupt', 'bech32-padding', 'compact', 'compact-typed', 'reverse', 'reverse-int', 'len', 'addsub', 'addsub-group', 'jacobi', 'addr', 'pubkeys', 'echo']))
    if k == 'hash':
        return (k, draw(st.sampled_from(sorted(HASHES))), draw(blobs))
    if k == 'hash-str':
        return (k, draw(st.sampled_from(sorted(HASHES))), draw(st.text(alphabet='abcdefghijklmnopqrstuvwxyzGHIJKLMNOPQRSTUVWXYZ_', min_size=1, max_size=70)))
    if k == 'tagged':
        return (k, draw(st.sampled_from(['TapLeaf', 'TapBranch', 'TapTweak', 'TapSighash', 'BIP0340/challenge', 'mytag'])), [draw(blobs.filter(lambda b: 5 <= len(b) <= 520)) for _ in range(draw(st.integers(1, 3)))])
    if k in ('b58', 'b58-corrupt'):
        return (k, draw(st.one_of(st.binary(min_size=1, max_size=40), st.sampled_from([bytes(21), b'\x00' * 5 + b'\x01', bytes([0]) + bytes(range(20)), b'\x80' + bytes(32), b'\x00' * 40]),
                                  st.sampled_from([196, 199, 200, 201, 253, 520]).flatmap(lambda n: st.binary(min_size=n, max_size=n)))), draw(st.integers(0, 10 ** 6)))
    if k in ('bech32', 'bech32-corrupt'):
        return (k, draw(st.sampled_from(['bech32-encode', 'bech32m-encode'])), draw(st.one_of(st.binary(min_size=2, max_size=40), st.sampled_from([bytes(20), bytes(32), bytes(range(32))]),
                                                                                               st.sampled_from([46, 47, 48, 49, 50, 55, 56, 64, 65]).flatmap(lambda n: st.binary(min_size=n, max_size=n)))), draw(st.integers(0, 10 ** 6)))
    if k == 'bech32-padding':
        return (k, draw(st.sampled_from([20, 32, 2, 33, 40])), draw(st.binary(min_size=40, max_size=40)), draw(st.sampled_from(['nonzero', 'extra-group', 'valid'])), draw(st.booleans()))
    if k in ('compact', 'reverse', 'len', 'echo'):
        return (k, draw(blobs))
    if k == 'compact-typed':
        kind = draw(st.sampled_from(['str', 'op', 'int']))
        if kind == 'str':
            return (k, kind, draw(st.one_of(st.text(alphabet='abcdefghijklmnopqrstuvwxyzGHIJKLMNOPQRSTUVWXYZ_', min_size=1, max_size=70),
                                            st.sampled_from([252, 253, 254, 300]).map(lambda n: 'hello_' + 'z' * (n - 6)))))
        if kind == 'op':
            return (k, kind, draw(st.sampled_from(['OP_DUP', 'OP_HASH160', 'OP_CHECKSIG', 'OP_IF', 'OP_16', 'OP_1', 'OP_NOP', 'OP_CHECKSIGADD'])))
        return (k, kind, draw(st.one_of(st.integers(17, 2 ** 31 - 1), st.integers(-2 ** 31 + 1, -2), st.sampled_from([17, 127, 128, 255, 256, 1000, 65535, 65536, -1000]))))
    if k == 'reverse-int':
        return (k, draw(st.one_of(st.integers(17, 10 ** 17), st.sampled_from([258, 1000, 120, 12345678901, 99]))))
    if k == 'addsub':
        big = st.one_of(st.integers(0, 2 ** 31 - 1), st.integers(0, 2 ** 256 - 1), st.sampled_from([0, 1, 16, 17, 2 ** 255, 2 ** 256 - 1, 2 ** 64, 2 ** 128 - 1]))
        return (k, draw(st.sampled_from(['add', 'sub'])), draw(big), draw(big), draw(st.sampled_from(['dec', 'hex'])))
    if k == 'addsub-group':
        g = draw(st.sampled_from([secp.N, secp.P, 2 ** 255 - 19, 0xfffe, 1000003, 17, 97, 2 ** 256 - 189]))
        # operands inside the group and (one time in three) arbitrary 256-bit values that have to be reduced first
        hi = g - 1 if draw(st.integers(0, 2)) else 2 ** 256 - 1
        return (k, draw(st.sampled_from(['add', 'sub'])), draw(st.one_of(st.integers(0, hi), st.sampled_from([0, g - 1, min(hi, g), min(hi, 2 * g), min(hi, 2 * g + 1), hi]))),
                draw(st.one_of(st.integers(0, hi), st.sampled_from([0, 1, g - 1, min(hi, g), min(hi, 3 * g - 1), hi]))), g)
    if k == 'jacobi':
        # n: uniform, small, and structured (odd part x power of two with every exponent 0..250 - the algorithm strips twos -, 2^e +- 1);
        # k: the default (field size) and odd moduli of every residue mod 8, prime and composite
        odd = draw(st.one_of(st.sampled_from([1, 3, 5, 7, 9, 15, 255, 257, 65537]), st.integers(0, 2 ** 40).map(lambda x: 2 * x + 1)))
        e = draw(st.integers(0, 250))
        shaped = draw(st.sampled_from([odd << e, (1 << e) + 1, max(0, (1 << e) - 1), odd << 64, odd << 65, odd << 63, odd << 128])) % (1 << 255)
        n = draw(st.one_of(st.integers(0, secp.P - 1), st.sampled_from([0, 1, 2, 3, secp.P - 1, secp.GX]), st.just(shaped), st.just(shaped)))
        kk = draw(st.sampled_from([None, None, None, secp.P, secp.N, 2 ** 255 - 19, 3 * 5 * 7 * 11, 1000003, 9, 3, 5, 7, 11, 13, 17, 2 ** 127 - 1, 2 ** 89 - 1, (2 ** 61 - 1) * 3, 1000003 * 5]))
        return (k, n, kk)
    if k == 'addr':
        return (k, draw(st.binary(min_size=20, max_size=20)), draw(st.sampled_from([0x00, 0x00, 0x6f, 0x05, 0x05, 0xc4, 0x80, 0x01, 0xff])), draw(st.sampled_from([20, 20, 20, 20, 19, 21, 32, 0])))
    if k == 'pubkeys':
        return (k, draw(st.sampled_from(['combine-pubkeys', 'tweak-pubkey', 'pubkey-to-xpubkey', 'taproot-tweak-pubkey', 'verify-sig', 'verify-sig-compact'])), draw(st.integers(1, secp.N - 1)), draw(st.integers(1, secp.N - 1)), draw(st.integers(0, 3)))
    raise AssertionError(k)


def case_json(c):
    def j(x):
        if isinstance(x, bytes):
            return {'hex': x.hex()} if len(x) <= 300 else {'byte': x[:1].hex(), 'repeat': len(x)}
        if isinstance(x, (list, tuple)):
            return [j(y) for y in x]
        return x
    return dict(case=j(list(c)))


def case_from_json(jn):
    def u(x):
        if isinstance(x, dict):
            return bytes.fromhex(x['hex']) if 'hex' in x else bytes.fromhex(x['byte']) * x['repeat']
        if isinstance(x, list):
            return [u(y) for y in x]
        return x
    return tuple(u(jn['case']))


def hx(b):
    return '0x' + b.hex()


def expect_eq(c, what, got, want):
    if got != want:
        raise Violation(c, '%s: got %s, defined value is %s' % (what, str(got)[:100], str(want)[:100]), observed=str(got)[:300], expected=str(want)[:300])


def num_le(n, size=32):
    return n.to_bytes(size, 'little')


def dec_or_hex(n, how):
    """spelling of a non-negative integer operand that compiles to a real push (values 0..16 are a separate, known class)"""
    if how == 'dec':
        return str(n)
    return hx(num_le(n, max(1, (n.bit_length() + 7) // 8)))


def jacobi_ref(n, k):
    assert k > 0 and k % 2 == 1
    n %= k
    t = 1
    while n:
        while n % 2 == 0:
            n //= 2
            if k % 8 in (3, 5):
                t = -t
        n, k = k, n
        if n % 4 == 3 and k % 4 == 3:
            t = -t
        n %= k
    return t if k == 1 else 0


def check(c, ctx):
    k = c[0]
    nontriv = True
    cls = k
    if k == 'hash':
        _, name, data = c
        nontriv = boundary_len(len(data))
        want = HASHES[name](data).hex()
        if len(data) == 0:
            # `0x` is the empty value
            r = tf('%s 0x' % name)
        else:
            r = tf('%s %s' % (name, hx(data)))
        expect_eq(c, 'tf %s on %d bytes' % (name, len(data)), out_line(r), want)
        if len(data) <= 4000:
            i = inline('%s(%s)' % (INLINE[name], hx(data) if data else '0x'))
            expect_eq(c, 'inline %s(...)' % name, i.get('data'), want)
        if 0 < len(data) <= 520:
            g = harness().req(kvline('run', script=R.push_enc(data) + bytes([HASH_OPS[name]]), flags=0, sv=0, mode='step', trace=0))
            expect_eq(c, 'opcode form of %s' % name, g['final']['st'], [want])
    elif k == 'hash-str':
        _, name, s = c
        if re.fullmatch(r'[0-9a-fA-F]+', s) and len(s) % 2 == 0 or s in ('OP_' + s[3:],) or R.__dict__ is None:
            return
        from ..ref.opcodes import BY_NAME
        if ('OP_' + s) in BY_NAME or s in BY_NAME or s.startswith('x'):
            return
        want = HASHES[name](s.encode()).hex()
        r = tf('%s %s' % (name, s))
        expect_eq(c, 'tf %s on the string %r' % (name, s), out_line(r), want)
        i = inline('%s(%s)' % (INLINE[name], s))
        expect_eq(c, 'inline %s(%s)' % (name, s), i.get('data'), want)
    elif k == 'tagged':
        _, tag, msgs = c
        th = hashlib.sha256(tag.encode()).digest()
        want = hashlib.sha256(th + th + b''.join(msgs)).digest().hex()
        r = tf('tagged-hash %s %s' % (tag, ' '.join(hx(m) for m in msgs)))
        expect_eq(c, 'tf tagged-hash %s with %d message part(s)' % (tag, len(msgs)), out_line(r), want)
        i = inline('tagged_hash([%s %s])' % (hx(tag.encode()), ' '.join(hx(m) for m in msgs)))
        expect_eq(c, 'inline tagged_hash', i.get('data'), want)
        inline_in_script(c, 'tagged_hash([%s %s])' % (hx(tag.encode()), ' '.join(hx(m) for m in msgs)), bytes.fromhex(want))
    elif k in ('b58', 'b58-corrupt'):
        _, data, pos = c
        enc = B58.encode_check(data)
        if re.fullmatch(r'[0-9a-fA-F]+', enc) and len(enc) % 2 == 0 or re.fullmatch(r'-?[0-9]+', enc):
            return      # the encoded string itself reads as a hex or decimal literal: argument typing, not the transform, decides (not asserted)
        r = tf('base58chk-encode %s' % hx(data))
        expect_eq(c, 'tf base58chk-encode', out_line(r), '"%s"' % enc)
        i = inline('base58chkenc(%s)' % hx(data))
        expect_eq(c, 'inline base58chkenc', bytes.fromhex(i.get('str', '')).decode(), enc)
        if k == 'b58':
            r = tf('base58chk-decode %s' % enc)
            expect_eq(c, 'decode(encode(x))', out_line(r), data.hex())
        else:
            p = pos % len(enc)
            ALPH58 = B58.ALPHABET + '0OIl'                           # incl. the four characters base58 excludes
            sub = ALPH58[(pos // len(enc)) % len(ALPH58)]
            if sub == enc[p]:
                return
            bad = enc[:p] + sub + enc[p + 1:]
            if re.fullmatch(r'[0-9a-fA-F]+', bad) and len(bad) % 2 == 0 or re.fullmatch(r'-?[0-9]+', bad):
                return      # the corrupted string reads as a hex / decimal literal (argument typing again, see above)
            want = B58.decode_check(bad)
            r = tf('base58chk-decode %s' % bad)
            rejected = 'decode failed' in r.get('err', '')
            if want is None and not rejected:
                raise Violation(c, 'base58check string with a corrupted character (%s at %d) was accepted' % (sub, p), observed=r)
            if want is not None and (rejected or out_line(r) != want.hex()):
                raise Violation(c, 'valid base58check string rejected / decoded differently', observed=r, expected=want.hex())
    elif k in ('bech32', 'bech32-corrupt'):
        _, fn, data, pos = c
        const = B32.BECH32_CONST if fn == 'bech32-encode' else B32.BECH32M_CONST
        enc = B32.encode('bcrt', [1] + B32.convertbits(data, 8, 5), const)
        r = tf('%s %s' % (fn, hx(data)))
        if len(enc) > 90:
            # BIP173 allows no string of more than 90 characters: the encoder may refuse the value, but a string it does emit must decode to the value
            cls = 'bech32-over-90-characters'
            ol = out_line(r)
            if ol.startswith('"'):
                r2 = tf('bech32-decode %s' % ol.strip('"'))
                if out_line(r2) != data.hex():
                    raise Violation(c, '%s of a %d byte value emits a %d character string that bech32-decode does not turn back into the value (%s)' % (fn, len(data), len(ol) - 2, r2.get('err', '').strip()[-60:]),
                                    observed=[ol[:40], out_line(r2)[:40], r2.get('err', '')[-80:]], expected='refused, or decode(encode(x)) = x')
            ctx.case(repr(case_json(c)), True, case_json(c), cls)
            return
        expect_eq(c, 'tf %s' % fn, out_line(r), '"%s"' % enc)
        if fn == 'bech32-encode':
            i = inline('bech32enc(%s)' % hx(data))
            expect_eq(c, 'inline bech32enc', bytes.fromhex(i.get('str', '')).decode(), enc)
        if k == 'bech32':
            r = tf('bech32-decode %s' % enc)
            expect_eq(c, 'bech32 decode(encode(x))', out_line(r), data.hex())
        else:
            p = pos % len(enc)
            ALPH = B32.CHARSET + B32.CHARSET.upper() + 'bio1BIO'      # charset symbols, their upper-case forms (mixed case is invalid), non-charset characters
            k2 = (pos // len(enc)) % (len(ALPH) + 4)
            sub = enc[p].swapcase() if k2 >= len(ALPH) else ALPH[k2]      # (the case flip of the very character gets extra weight)
            if sub == enc[p]:
                return
            bad = enc[:p] + sub + enc[p + 1:]
            want = B32.decode(bad)
            r = tf('bech32-decode %s' % bad)
            rejected = 'failed to bech32' in r.get('err', '')
            if want is None and not rejected:
                raise Violation(c, 'bech32(m) string with a corrupted character was accepted', observed=r)
            if want is not None and rejected:
                raise Violation(c, 'valid bech32(m) string rejected', observed=r)
    elif k == 'bech32-padding':
        # a correctly checksummed string whose 5-bit groups do not convert back to whole bytes: non-zero padding bits, or a whole group of padding
        # (BIP173: decoders must reject both)
        _, n, raw, how, m = c
        groups = B32.convertbits(raw[:n], 8, 5)
        pad_bits = len(groups) * 5 - n * 8
        if how == 'nonzero':
            if pad_bits == 0:
                return
            groups[-1] |= 1
        elif how == 'extra-group':
            groups.append(0)
        enc = B32.encode('bc', [1 if m else 0] + groups, B32.BECH32M_CONST if m else B32.BECH32_CONST)
        if len(enc) > 90:
            return
        back = B32.convertbits(groups, 5, 8, False)       # None: the groups do not regroup into whole bytes with at most 4 zero padding bits
        r = tf('bech32-decode %s' % enc)
        ctx.count('bech32-padding:' + ('invalid' if back is None else 'valid'))
        rejected = 'failed to bech32' in r.get('err', '')
        if back is not None:
            if rejected or out_line(r) != bytes(back).hex():
                raise Violation(c, 'valid bech32(m) string %s rejected / decoded differently' % enc, observed=r, expected=bytes(back).hex())
        elif not rejected:
            raise Violation(c, 'bech32(m) string %s with invalid padding (%s) was decoded to %r' % (enc, how, out_line(r)), observed=r, expected='rejected')
    elif k == 'compact':
        _, data = c
        n = len(data)
        nontriv = boundary_len(n)
        pre = bytes([n]) if n < 253 else (b'\xfd' + n.to_bytes(2, 'little') if n <= 0xffff else b'\xfe' + n.to_bytes(4, 'little'))
        arg = hx(data) if data else '0x'
        r = tf('prefix-compact-size %s' % arg)
        expect_eq(c, 'tf prefix-compact-size on %d bytes' % n, out_line(r), (pre + data).hex())
        i = inline('prefix_compact_size(%s)' % arg)
        expect_eq(c, 'inline prefix_compact_size', i.get('data'), (pre + data).hex())
    elif k == 'compact-typed':
        # the argument is a string, an opcode name or a decimal integer: the prefixed value is the bytes that argument stands for
        _, kind, v = c
        if kind == 'str':
            from ..ref.opcodes import BY_NAME
            if re.fullmatch(r'[0-9a-fA-F]+', v) and len(v) % 2 == 0 or ('OP_' + v) in BY_NAME or v in BY_NAME or v.startswith('x'):
                return
            arg, data = v, v.encode()
        elif kind == 'op':
            from ..ref.opcodes import BY_NAME
            arg, data = v, bytes([BY_NAME[v]])
        else:
            arg, data = str(v), R.num_enc(v)
        cls = 'compact-typed:' + kind
        n = len(data)
        pre = bytes([n]) if n < 253 else b'\xfd' + n.to_bytes(2, 'little')
        r = tf('prefix-compact-size %s' % arg)
        expect_eq(c, 'tf prefix-compact-size on the %s argument %s' % (kind, arg[:40]), out_line(r), (pre + data).hex())
        i = inline('prefix_compact_size(%s)' % arg)
        expect_eq(c, 'inline prefix_compact_size(%s) as pushed' % arg[:40], i.get('data'), (pre + data).hex())
    elif k == 'reverse-int':
        # "reverse the value according to the type": an integer argument has its decimal digits reversed
        _, n = c
        want = int(str(n)[::-1])
        r = tf('reverse %d' % n)
        expect_eq(c, 'tf reverse of the integer %d (digits reversed)' % n, out_line(r), str(want))
        i = inline('reverse(%d)' % n)
        expect_eq(c, 'inline reverse(%d)' % n, i.get('data'), R.num_enc(want).hex())
    elif k == 'reverse':
        _, data = c
        if not data:
            return
        nontriv = boundary_len(len(data))
        r = tf('reverse %s' % hx(data))
        expect_eq(c, 'tf reverse (byte reversal of data)', out_line(r), data[::-1].hex())
        i = inline('reverse(%s)' % hx(data))
        expect_eq(c, 'inline reverse', i.get('data'), data[::-1].hex())
        r2 = tf('reverse reverse(%s)' % hx(data))
        expect_eq(c, 'reverse(reverse(x))', out_line(r2), data.hex())
    elif k == 'len':
        _, data = c
        nontriv = boundary_len(len(data))
        r = tf('len %s' % (hx(data) if data else '0x'))
        expect_eq(c, 'tf len', out_line(r), str(len(data)))
    elif k == 'echo':
        _, data = c
        if not data:
            return
        r = tf('echo %s' % hx(data))
        expect_eq(c, 'tf echo', out_line(r), data.hex())
        r = tf('hex %s' % hx(data))
        expect_eq(c, 'tf hex of data', out_line(r), data.hex())
    elif k == 'addsub':
        _, op, a, b, how = c
        if how == 'dec' and (a >= 2 ** 63 or b >= 2 ** 63):
            how = 'hex'
        sa, sb = dec_or_hex(a, how), dec_or_hex(b, how)
        want = ((a + b) if op == 'add' else (a - b)) % 2 ** 256
        r = tf('%s %s %s' % (op, sa, sb))
        expect_eq(c, 'tf %s %s %s (mod 2^256, little-endian 32-byte result)' % (op, sa[:40], sb[:40]), out_line(r), num_le(want).hex())
        i = inline('%s([%s %s])' % (op, sa, sb))
        expect_eq(c, 'inline %s([a b])' % op, i.get('data'), num_le(want).hex())
        inline_in_script(c, '%s([%s %s])' % (op, sa, sb), num_le(want))
    elif k == 'addsub-group':
        _, op, a, b, g = c
        want = ((a + b) if op == 'add' else (a - b)) % g
        sa, sb, sg = (hx(num_le(x, max(1, (x.bit_length() + 7) // 8))) for x in (a, b, g))
        r = tf('%s %s %s %s' % (op, sa, sb, sg))
        if out_line(r) != num_le(want).hex():
            fid = 'C14-sub-with-group' if op == 'sub' else None
            if fid and core.kf_active(fid):
                ctx.known_hit(fid, case_json(c))
            else:
                raise Violation(c, 'tf %s a b g: got %s, (a %s b) mod g is %s' % (op, out_line(r)[:70], '+' if op == 'add' else '-', num_le(want).hex()), observed=out_line(r), expected=num_le(want).hex())
    elif k == 'jacobi':
        _, n, kk = c
        mod = kk if kk is not None else secp.P
        want = jacobi_ref(n, mod)
        if kk is None and mod == secp.P:
            # Euler's criterion cross-check of the oracle for the prime field
            e = pow(n, (secp.P - 1) // 2, secp.P)
            assert (e == 1 and want == 1) or (e == secp.P - 1 and want == -1) or (n % secp.P == 0 and want == 0)
        if n and (n & -n) >= 1 << 64:
            ctx.count('jacobi:n-with-64-or-more-trailing-zero-bits')
        args = hx(num_le(n)) + ('' if kk is None else ' ' + hx(num_le(kk)))
        r = tf('jacobi-symbol ' + args)
        expect_eq(c, 'tf jacobi-symbol n=%d k=%s' % (n, kk), out_line(r), str(want))
    elif k == 'addr':
        _, h, ver, plen = (c + (0, 20))[:4] if len(c) < 4 else c
        payload = (h + bytes(32))[:plen]
        addr = B58.encode_check(bytes([ver]) + payload)
        if re.fullmatch(r'[0-9a-fA-F]+', addr) and len(addr) % 2 == 0 or re.fullmatch(r'-?[0-9]+', addr):
            return
        r = tf('addr-to-scriptpubkey %s' % addr)
        ctx.count('addr:version-%02x:len-%d' % (ver, plen))
        if plen == 20 and ver in (0x00, 0x6f):
            spk = b'\x76\xa9\x14' + payload + b'\x88\xac'
        elif plen == 20 and ver in (0x05, 0xc4):
            spk = b'\xa9\x14' + payload + b'\x87'          # a pay-to-script-hash address is not a pay-to-pubkey-hash script
        else:
            spk = None
        if spk is None:
            # neither kind of address (a WIF key, another payload size): no script may come out of it
            if out_line(r) not in ('', None) and len(out_line(r)) > 2:
                raise Violation(c, 'addr-to-scriptpubkey turned the base58check string %s (version 0x%02x, %d byte payload) into the script %s' % (addr, ver, plen, out_line(r)), observed=out_line(r), expected='rejected')
            return
        expect_eq(c, 'tf addr-to-scriptpubkey (version 0x%02x)' % ver, out_line(r), spk.hex())
        if ver in (0x00, 0x05):
            # (main net versions: the conversion back writes the main net version byte)
            r = tf('scriptpubkey-to-addr %s' % hx(spk))
            expect_eq(c, 'tf scriptpubkey-to-addr', out_line(r), '"%s"' % addr)
            i = inline('spk_to_addr(addr_to_spk(%s))' % addr)
            expect_eq(c, 'spk_to_addr(addr_to_spk(a)) = a', bytes.fromhex(i.get('str', '')).decode(), addr)
    elif k == 'pubkeys':
        _, fn, d1, d2, variant = c
        cls = 'pubkeys:' + fn
        p1, p2 = secp.gen(d1), secp.gen(d2)
        c1 = secp.ser_pub(p1, variant & 1 == 0)
        c2 = secp.ser_pub(p2, variant & 2 == 0)
        if fn == 'combine-pubkeys':
            s_ = secp.add(p1, p2)
            if s_ is None:
                return
            r = tf('combine-pubkeys %s %s' % (hx(c1), hx(c2)))
            expect_eq(c, 'tf combine-pubkeys', out_line(r), secp.ser_pub(s_).hex())
        elif fn == 'tweak-pubkey':
            r = tf('tweak-pubkey %s %s' % (hx(d2.to_bytes(32, 'big')), hx(c1)))
            expect_eq(c, 'tf tweak-pubkey (scalar multiple)', out_line(r), secp.ser_pub(secp.mul(d2, p1)).hex())
        elif fn == 'pubkey-to-xpubkey':
            r = tf('pubkey-to-xpubkey %s' % hx(c1))
            expect_eq(c, 'tf pubkey-to-xpubkey', out_line(r), secp.xonly(p1).hex())
        elif fn == 'taproot-tweak-pubkey':
            tw = d2.to_bytes(32, 'big')
            base = secp.lift_x(p1[0])
            q = secp.add(base, secp.gen(d2))
            if q is None:
                return
            r = tf('taproot-tweak-pubkey %s %s' % (hx(secp.xonly(p1)), hx(tw)))
            expect_eq(c, 'tf taproot-tweak-pubkey (lift_x(P) + t*G, compressed)', out_line(r), secp.ser_pub(q).hex())
        else:
            msg = hashlib.sha256(b'm%d' % d2).digest()
            r_, s_ = secp.ecdsa_sign(d1, msg)
            good = variant >= 2
            m2 = msg if good else hashlib.sha256(msg).digest()
            if fn == 'verify-sig':
                if variant & 1:
                    sig = secp.schnorr_sign(d1, msg)
                    r = tf('verify-sig %s %s %s' % (hx(m2), hx(secp.xonly(p1)), hx(sig)))
                else:
                    r = tf('verify-sig %s %s %s' % (hx(m2), hx(c1), hx(secp.der_sig(r_, s_))))
            else:
                r = tf('verify-sig-compact %s %s %s' % (hx(m2), hx(c1), hx(r_.to_bytes(32, 'big') + s_.to_bytes(32, 'big'))))
            expect_eq(c, 'tf %s on a %s signature' % (fn, 'valid' if good else 'wrong-message'), out_line(r), '1' if good else '0')
    ctx.case(repr(case_json(c)), nontriv, case_json(c), cls)
    ctx.count('transform:' + (c[1] if k in ('hash', 'hash-str', 'pubkeys', 'addsub', 'addsub-group') else k))


def w_cases(ctx, wid, seed, examples):
    core.hyp_campaign(ctx, 'transforms', cases(), check, examples, seed, case_json)


def w_small_operands(ctx, wid, seed):
    """operands that compile to OP_0 / OP_1..16 / OP_1NEGATE in a multi-argument transform (own class with its own finding signature)"""
    for a, b in ((1, 2), (0, 5), (16, 16), (3, 100)):
        r = tf('add %d %d' % (a, b))
        ctx.case('small:%d,%d' % (a, b), True, dict(cmd='tf add %d %d' % (a, b), out=out_line(r), err=r.get('err', '')[:80]), 'small-operands')
        if out_line(r) != num_le(a + b).hex():
            if core.kf_active('C14-small-operands'):
                ctx.known_hit('C14-small-operands', dict(cmd='tf add %d %d' % (a, b), out=out_line(r), err=r.get('err', '')[:80]))
            else:
                ctx.violations.append(dict(campaign='small-operands', why='`tf add %d %d` answers %r (%r) instead of %s' % (a, b, out_line(r)[:40], r.get('err', '')[:60], num_le(a + b).hex()), case=dict(case=['small', a, b]), refails=3))
                return


def w_repl(ctx, wid, seed):
    """the command form through the real REPL (sample): outputs must equal the harness-captured command body"""
    cmds = ['tf sha256 0x01', 'tf hash160 abc', 'tf base58chk-encode 0x00' + '11' * 20, 'tf bech32m-encode 0x' + '22' * 32, 'tf prefix-compact-size 0x' + 'ab' * 253, 'tf reverse 0x010203',
            'tf add 17 18', 'tf jacobi-symbol 0x' + num_le(4).hex(), 'tf int 0xff00', 'tf hex 255', 'tf len 0x' + '00' * 300, 'tf tagged-hash TapLeaf 0xc00151']
    rp = cli.Repl(['0x51'])
    blocks, err, status = rp.session(cmds, timeout=30)
    if status != 'ok':
        ctx.inconclusive += 1
        return
    for i, cmd in enumerate(cmds):
        got = [l.strip() for l in blocks[i + 1].split('\n') if l.strip()]
        want = out_line(tf(cmd[3:]))
        ctx.case('repl:' + cmd, True, dict(cmd=cmd, repl=got[-1:] and got[-1][:80]), 'repl-command-form')
        if not got or got[-1] != want:
            ctx.violations.append(dict(campaign='repl', why='REPL `%s` prints %r, the command body prints %r' % (cmd[:60], got[-1:] and got[-1][:80], want[:80]), case=dict(case=['repl', cmd]), refails=3))
            return


def run(tier, t0):
    W = core.WORKERS
    n = 4000 if tier == 'quick' else 60000
    m = core.parallel(PID, [(w_repl, dict()), (w_small_operands, dict())] + [(w_cases, dict(examples=n)) for _ in range(W)])
    seen = set(k.split(':', 1)[1] for k in m.counters if k.startswith('transform:'))
    return core.finish(PID, tier, m, RULE, t0, min_nontrivial=2000 if tier == 'quick' else 100000, extra=dict(transform_classes_seen=sorted(seen)),
                       assumptions=['hashlib (OpenSSL) for SHA-256 / RIPEMD-160', 'reference base58 / bech32 / secp256k1 implementations in vf/ref',
                                    'add / sub / jacobi-symbol take their operands as little-endian byte strings (the tool\'s convention: the result of `tf add 17 18` is 23 00..00) and answer in that form',
                                    'reverse of a decimal argument reverses its digits (the tool: "according to the type"); inline forms exist for 24 of the 27 transforms (bech32m-encode, len, verify-sig-compact have none)'])


def replay(rec):
    j = rec['case']
    if j.get('case') and j['case'][0] in ('small', 'repl'):
        ctx = core.Ctx(PID)
        (w_small_operands if j['case'][0] == 'small' else w_repl)(ctx, 0, 0)
        return (not ctx.violations), str(ctx.violations[:1])
    c = case_from_json(j)
    try:
        check(c, core.Ctx(PID))
    except Violation as v:
        return False, 'still failing: %s\n  expected %r\n  observed %r' % (v.why, v.expected, v.observed)
    return True, 'ok'
