"""C15 - no input makes the tools crash or touch memory they do not own.

(a) The three real binaries, built with AddressSanitizer + the UBSan subset that matches the statement (bounds, null, integer
    division, unreachable/return), are run on grammar-valid inputs of C01-C14 and structure-aware mutations of them (truncation,
    length-field corruption, oversized counts, out-of-range indices, empty strings, nesting, over-long option values, unknown
    functions, adversarial transform arguments, -z operands).
(b) REPL command sequences over step / rewind / exec / tf / print / stack / altstack / vfexec / help with generated arguments.
(c) Coverage-guided libFuzzer targets with the oracle inside the target (native/fuzz/*.cpp).
(d) A valgrind memcheck sample on the plain build for uninitialised reads.
Oracle: the process ends by itself with an exit status - no signal, no 'terminate called', no failed assertion, no sanitizer or
memcheck report. Rejection with a diagnostic is success; a deadline hit is inconclusive."""
import os
import shutil
import subprocess
import tempfile

from hypothesis import strategies as st

from .. import build, cli, core
from ..core import Violation
from ..ref import script as R, secp, tx as T, verify as V
from ..ref.script import F
from ..gen import scripts as G, spends as S, sessions as SS
from . import c07, c13, c14

PID = 'C15'
VARIANTS = ['plain', 'asan']
RULE = ('command lines for btcdeb / btcc / tap and REPL command sequences, generated from valid inputs and structure-aware mutations; non-trivial = the input got past option parsing into the component it targets '
        '(every generated case names its component and mutation kind); findings are counted by root cause; distinct = hash of (tool, argv, stdin / commands)')


def junk_text(draw):
    return draw(st.one_of(st.sampled_from(['', ' ', '0x', '0xzz', '[', ']', '[]', '[[', ']]', '()', 'sha256(', 'sha256()', 'nosuchfn(1)', '-1', '--', '%SIG%', '0b1010', 'OP_', 'OP_x', 'OP_xzz', 'x', '0x0',
                                            '9999999999999999999999', '-9223372036854775808', '1e9', 'a' * 300, '0x' + 'ff' * 600, '[' * 40 + ']' * 40, 'hash160(hash160(hash160(0x00)))',
                                            'addr_to_spk(xyz)', 'spk_to_addr(0x00)', 'base58chkdec(0OIl)', 'bech32dec(bcrt1)', 'int(abc)', 'reverse(OP_DUP)', 'jacobi(0x01)', 'tagged_hash(0x01)',
                                            'combine_pubkeys(0x0102)', 'tweak_pubkey(0x01)', 'verify_sig(0x01)', 'add(0x01)', 'sub([1 2 3 4])', 'prefix_compact_size()', 'taproot_tweak_pubkey([0x01 0x02])']),
                           st.text(alphabet='0123456789abcdefx[]() OP_#,:-+', max_size=24)))


# ---------------------------------------------------------------- (a) command lines
@st.composite
def btcdeb_cmd(draw):
    kind = draw(st.sampled_from(['script', 'script', 'script-z', 'script-junk', 'spend', 'spend-mutated', 'spend-witshape', 'spend-witshape', 'spend-shapes', 'spend-shapes', 'p2sh-plain', 'tx-only', 'options', 'select', 'stdin-edge', 'inline', 'spend-hashtype', 'spend-hashtype', 'tty-logging', 'tty-logging']))
    argv, stdin = [], b''
    comp = kind
    stdin_tty = False
    if kind == 'spend-hashtype':
        # an ECDSA signature whose hash type byte is one of the unusual ones (0x00, 0x04, 0x80, 0x84, 0xff ...), with STRICTENC off so that it reaches the
        # signature hash and its logging
        rnd = draw(st.randoms(use_true_random=False))
        c = S.build(rnd, draw(st.sampled_from(['p2pkh', 'p2pk', 'p2wpkh', 'p2sh-p2wpkh', 'multisig'])), ninputs=draw(st.sampled_from([1, 1, 3])))
        ht = draw(st.sampled_from([0x00, 0x04, 0x80, 0x84, 0xff, 0x1f, 0x20, 0x44, 0x03, 0x03, 0x83, 0x02, 0x82]))
        if ht in (0x03, 0x83) and draw(st.booleans()):
            c['tx'].vout = c['tx'].vout[:1]        # SIGHASH_SINGLE with no output at the index of the debugged input (the historic 'one' digest)
        # the signing / sighash log is only live when stdin is a terminal: half of these runs keep it on one (stdout stays a pipe: non-interactive)
        stdin_tty = draw(st.booleans())
        vin = c['tx'].vin[c['idx']]
        if vin['wit']:
            vin['wit'][0] = vin['wit'][0][:-1] + bytes([ht])
        else:
            ops = R.decode(vin['script'])
            first = next(e for e in ops if e[1] and len(e[1]) > 60)
            pos = vin['script'].index(first[1])
            vin['script'] = vin['script'][:pos + len(first[1]) - 1] + bytes([ht]) + vin['script'][pos + len(first[1]):]
        argv += ['--tx=' + c['tx'].ser().hex(), '--txin=' + c['fund'].ser().hex(), '--modify-flags=' + draw(st.sampled_from(['-STRICTENC', '-STRICTENC,-NULLFAIL', '-STRICTENC,-DERSIG,-LOW_S']))]
        if draw(st.booleans()):
            argv += ['--debug=' + draw(st.sampled_from(['sign', 'signing', 'sighash', 'sighash,signing', 'all']))]
        stdin = b'\n'
    elif kind == 'tty-logging':
        # stdin on a terminal, stdout a pipe: a non-interactive run in which every log category can be live (--debug=..., DEBUG_* variables): a signature check
        # with a well-formed signature and key over a script code of up to ~10 kB, with a transaction given - the digest code logs what it hashes
        rnd = draw(st.randoms(use_true_random=False))
        c = S.build(rnd, 'p2pkh', ninputs=draw(st.sampled_from([1, 2])))
        ops = [e for e in R.decode(c['tx'].vin[c['idx']]['script']) if e and e[1]]
        sig, pub = ops[0][1], ops[1][1]
        filler = draw(st.sampled_from([0, 1, 2, 3, 19]))
        body = (G.push(bytes([9]) * 520, 1) + b'\x75') * filler + draw(st.sampled_from([b'\xac\x91', b'\xac\x91', b'\xad\x51', b'\x51\x7c\x51\xae\x91']))
        argv += ['--tx=' + c['tx'].ser().hex(), '--modify-flags=-NULLFAIL', draw(st.sampled_from(['--debug=sighash', '--debug=sighash,signing', '-Dall', '--debug=signing,segwit,taproot', '--debug=sighash'])),
                 '0x' + body.hex(), '0x' + sig.hex(), '0x' + pub.hex()]
        if body.endswith(b'\xae\x91'):
            argv[-2:] = ['0x', '0x' + sig.hex(), '0x' + pub.hex()]
        stdin_tty = True
    elif kind == 'inline':
        # inline function expressions as the script (stdin or argv), inside a bracketed script, as stack arguments and in the --pretend-valid list
        e = draw(inline_expr())
        where = draw(st.sampled_from(['stdin', 'argv', 'bracket', 'stack', 'pretend']))
        if where == 'stdin':
            stdin = e.encode() + b'\n'
        elif where == 'argv':
            argv += [e]
        elif where == 'bracket':
            stdin = ('[OP_1 %s OP_DROP]' % e).encode() + b'\n'
        elif where == 'stack':
            stdin = b'[OP_DROP OP_1]\n'
            argv += [e]
        else:
            argv += ['--pretend-valid=%s:%s' % (e, draw(inline_expr()))]
            stdin = b'[OP_1]\n'
    elif kind in ('script', 'script-z'):
        script, stack = draw(G.grammar_script(with_sig=True))
        if kind == 'script-z':
            ops = sorted(R.DISABLED)
            a, b = draw(G.small_values), draw(G.small_values)
            script = G.push(a, 1) + G.push(b, 1) + bytes([draw(st.sampled_from(ops))]) + script[:20]
            argv.append('-z')
        # (the script text on stdin is trimmed of blanks around it: the buffer that was read, the trimmed text and what is freed are three things)
        lead = draw(st.sampled_from([b'', b'', b'', b' ', b'\t', b'\r\n', b'  \n ', b' ' * 70]))
        stdin = lead + b'0x' + script.hex().encode() + draw(st.sampled_from([b'\n', b'\n', b' \n', b'\r\n', b'', b'\n\n \n']))
        argv += ['0x' + x.hex() for x in stack]
    elif kind == 'script-junk':
        stdin = draw(st.one_of(st.just(junk_text(draw).encode()), st.binary(max_size=40))) + draw(st.sampled_from([b'\n', b'', b'\r\n']))
        argv += [junk_text(draw) for _ in range(draw(st.integers(0, 2)))]
        argv = [a for a in argv if not a.startswith('-') or a in ('-1',)]
    elif kind == 'p2sh-plain':
        # a P2SH-shaped script given directly, redeem script (with signature opcodes, longer than the inline script storage) as last stack item
        keys = [bytes([2]) + bytes([i + 1]) * 32 for i in range(draw(st.integers(1, 3)))]
        redeem = draw(st.sampled_from([b''.join(G.push(k_, 1) for k_ in keys) + b'\xac', b'\x51' + b''.join(G.push(k_, 1) for k_ in keys) + bytes([0x50 + len(keys)]) + b'\xae',
                                       G.push(keys[0], 1) + b'\xad\x51', b'\x76\xa9\x14' + bytes(20) + b'\x88\xac' + b'\x61' * 10]))
        script = b'\xa9\x14' + R.ripemd(R.sha256(redeem)) + b'\x87'
        args = [draw(st.sampled_from([b'', b'\x01', secp.der_sig(1, 1) + b'\x01'])) for _ in range(draw(st.integers(0, 3)))]
        stdin = b'0x' + script.hex().encode() + b'\n'
        argv += ['0x' + x.hex() for x in args] + (['0x' + redeem.hex()] if draw(st.integers(0, 4)) else [])
    elif kind in ('spend', 'spend-mutated', 'select', 'spend-witshape', 'spend-shapes'):
        rnd = draw(st.randoms(use_true_random=False))
        if kind == 'spend-shapes':
            c = S.build(rnd, draw(st.sampled_from(S.TYPES)), ninputs=draw(st.sampled_from([None, 1])))
            S.corrupt(c, draw(st.sampled_from(['tiny_scriptsig', 'spk_shape', 'spk_shape', 'scriptsig_ops', 'scriptsig_ops'])), rnd)
        elif kind == 'spend-witshape':
            # unusual witness stack shapes on witness-program outputs (lone annex-tagged item, only empty items, ...)
            c = S.build(rnd, draw(st.sampled_from(['p2tr-key', 'p2tr-key', 'p2tr-script', 'p2wpkh', 'p2wsh', 'p2sh-p2wsh', 'p2sh-p2wpkh'])), ninputs=draw(st.sampled_from([None, 1])))
            S.corrupt(c, 'wit_shape', rnd)
        else:
            c = S.build(rnd, draw(st.sampled_from(S.TYPES)), same_fund_decoy=draw(st.booleans()))
            S.corrupt(c, draw(st.sampled_from(S.CORR)), rnd)
        txh, inh = c['tx'].ser().hex(), c['fund'].ser().hex()
        if kind == 'spend-mutated':
            which = draw(st.sampled_from(['tx', 'txin', 'both']))
            mut = draw(st.sampled_from(['truncate', 'byte', 'vout-oob', 'vout-oob', 'vout-oob', 'other-vout-oob', 'other-vout-oob', 'count', 'empty', 'odd-hex', 'nonhex', 'witness-drop-all', 'swap']))
            def m(h):
                b = bytearray(bytes.fromhex(h))
                if mut == 'truncate':
                    return bytes(b[:draw(st.integers(0, len(b) - 1))]).hex()
                if mut == 'byte' and b:
                    b[draw(st.integers(0, len(b) - 1))] = draw(st.integers(0, 255))
                    return bytes(b).hex()
                if mut == 'count':
                    b[4:5] = draw(st.sampled_from([b'\xfd\xff\xff', b'\xfe\xff\xff\xff\x01', b'\xff' * 9, b'\x00', b'\xfc']))
                    return bytes(b).hex()
                if mut == 'empty':
                    return ''
                if mut == 'odd-hex':
                    return h[:-1]
                if mut == 'nonhex':
                    return h[:10] + 'zz' + h[12:]
                return h
            if mut == 'vout-oob':
                c['tx'].vin[c['idx']]['n'] = draw(st.sampled_from([len(c['fund'].vout), len(c['fund'].vout) + 1, len(c['fund'].vout) + 6, 0xffffffff, 0x00ffffff, 1000]))
                txh = c['tx'].ser().hex()
            elif mut == 'other-vout-oob':
                # ANOTHER input of the spending transaction (not the debugged one) names the funding transaction with an output index at / past its end:
                # collecting "all spent outputs" must not index by it
                nv = len(c['fund'].vout)
                oob = draw(st.sampled_from([nv, nv, nv + 1, 0xffffffff]))
                others = [i for i in range(len(c['tx'].vin)) if i != c['idx']]
                if others:
                    v = c['tx'].vin[draw(st.sampled_from(others))]
                    v['txid'], v['n'] = c['fund'].txid(), oob
                else:
                    c['tx'].vin.append(dict(txid=c['fund'].txid(), n=oob, script=b'', seq=0xffffffff, wit=[]))
                txh = c['tx'].ser().hex()
            elif mut == 'witness-drop-all':
                for v in c['tx'].vin:
                    v['wit'] = []
                txh = c['tx'].ser().hex()
            elif mut == 'swap':
                txh, inh = inh, txh
            else:
                if which in ('tx', 'both'):
                    txh = m(txh)
                if which in ('txin', 'both'):
                    inh = m(inh)
            comp = 'spend-mutated:' + mut
        argv += ['--tx=' + draw(st.sampled_from(['', '', '', '', '0.001:', '1,2,3:', 'x:', ':', '1.123456789:'])) + txh, '--txin=' + inh]
        if kind == 'spend-mutated' and mut == 'vout-oob' and draw(st.booleans()):
            # the explicitly selected input references an output the funding transaction does not have (the explicit path has its own range check to make)
            argv.append(draw(st.sampled_from(['--select=%d', '-s%d'])) % c['idx'])
        elif kind == 'select' or draw(st.integers(0, 5)) == 0:
            argv.append('--select=' + draw(st.sampled_from(['0', '1', '2', '-1', '-2', '99', '4294967295', '2147483648', 'abc', '', str(c['idx']), str(c['idx'])])))
        stdin = b'\n'
    elif kind == 'tx-only':
        t = draw(c13.txs())
        argv += ['--tx=' + t.ser().hex()]
        script, stack = draw(G.grammar_script(with_sig=True, max_ops=8))
        stdin = b'0x' + script.hex().encode() + b'\n'
    elif kind == 'options':
        argv += [draw(st.sampled_from(['--modify-flags=' + 'A' * 300, '-f+', '-f,', '-f+P2SH,,', '--pretend-valid=', '--pretend-valid=:', '--pretend-valid=a:b:c', '--pretend-valid=' + 'aa:bb,' * 100,
                                        '--debug=', '--debug=' + 'x,' * 200, '--dataset', '--dataset=nosuch', '-X', '--select=', '--tx=', '--txin=', '--tx=:', '--tx=1:', '-s5', '--version', '-h', '-d', '-q', '-v',
                                        '--nosuchoption', '-Q', '--tx', '--allow-disabled-opcodes']))]
        stdin = draw(st.sampled_from([b'0x51\n', b'', b'[OP_1]\n']))
    else:
        stdin = draw(st.sampled_from([b'1' + b'a' * 10000000 + b'\n', b'9' * 3000000 + b'\n', b'-' + b'7' * 5000000 + b'\n', b'a(' * 100000 + b'1' + b')' * 100000 + b'\n',
                                      b'', b'\n', b'\x00', b'0x51', b'[' * 600 + b'\n', b'0x' + b'51' * 6000 + b'\n', b'[OP_1 ' * 300 + b'\n', b'\xff\xfe\n', b'0x51\n0x52\n']))
    return dict(tool='btcdeb', argv=argv, stdin=stdin, component=comp, stdin_tty=stdin_tty)


INLINE_FUNS = ['echo', 'hex', 'int', 'reverse', 'sha256', 'ripemd160', 'hash256', 'hash160', 'base58chkenc', 'base58chkdec', 'bech32enc', 'bech32dec', 'verify_sig', 'combine_pubkeys', 'tweak_pubkey',
               'pubkey_to_xpubkey', 'addr_to_spk', 'spk_to_addr', 'add', 'sub', 'jacobi', 'tagged_hash', 'taproot_tweak_pubkey', 'prefix_compact_size', 'nosuchfun', 'len', 'bech32menc']
INLINE_ARGS = ['', '0', '1', '-1', '17', '0x', '0x00', '0x80', '0x0000000080', '0xffffffffff', '0x' + '00' * 32, '0x' + 'ff' * 32, '0x' + '01' * 33, '0x02' + '11' * 32, '0x' + 'ab' * 64, '0x' + 'ab' * 65,
               '99999999999999999999', '-9223372036854775808', 'abc', 'bc1qw508d6qejxtdg4y5r3zarvary0c5xw7kv8f3t4', '1PqhyaTFgaHeYVmi5qBV9AjjeiyiTV1hpx', '0x5120' + '22' * 32, '0x0014' + '33' * 20, 'TapLeaf',
               # valid bech32 / bech32m strings with an EMPTY data part (BIP173 / BIP350 test vectors), one-symbol data parts
               'a12uel5l', 'A12UEL5L', 'a1lqfn3a', 'A1LQFN3A', 'abcdef1qpzry9x8gf2tvdw0s3jn54khce6mua7lmqqqxw', '?1ezyfcl', 'bc1gmk9yu']


@st.composite
def inline_expr(draw, depth=1):
    """fn(arg) / fn([a b]) / fn(fn(arg)) expressions: the inline function syntax every tool accepts wherever a value is read"""
    if draw(st.integers(0, 7)) == 0:
        # decoders on strings that are VALID for the codec but degenerate for the transform (empty data part, one symbol, the longest string)
        return '%s(%s)' % (draw(st.sampled_from(['bech32dec', 'bech32dec', 'base58chkdec', 'addr_to_spk'])),
                           draw(st.sampled_from(['a12uel5l', 'A12UEL5L', 'a1lqfn3a', 'A1LQFN3A', '?1ezyfcl', 'bc1gmk9yu', 'abcdef1qpzry9x8gf2tvdw0s3jn54khce6mua7lmqqqxw', '1', '11', '3QJmnh', '1111111111'])))
    f = draw(st.one_of(st.sampled_from(INLINE_FUNS), st.sampled_from(['int', 'int', 'jacobi', 'jacobi', 'add', 'sub', 'hex', 'bech32dec', 'base58chkdec', 'spk_to_addr', 'verify_sig', 'verify_sig', 'pubkey_to_xpubkey', 'tweak_pubkey'])))
    if f == 'jacobi' and draw(st.booleans()):
        # jacobi([n k]): both 32-byte values; k = 0, 1, 2 (even), n = 0, n = k
        vals = ['0x' + '00' * 32, '0x' + '00' * 31 + '01', '0x' + '00' * 31 + '02', '0x' + 'ff' * 32, '0x' + '0102030405060708' * 4]
        return 'jacobi([%s %s])' % (draw(st.sampled_from(vals)), draw(st.sampled_from(vals)))
    if f == 'verify_sig' or (f == 'nosuchfun' and draw(st.booleans())):
        # verify_sig([sighash pubkey signature]): sighash of 32 / 64 / other sizes, compressed / x-only / odd keys, DER / 64-byte / odd signatures
        hs = draw(st.sampled_from(['0x' + '11' * 32, '0x' + '11' * 64, '0x' + '11' * 31, '0x', '0x' + '11' * 33]))
        ks = draw(st.sampled_from(['0x02' + 'ab74ff5864c29ab400030afc05a7c141c4970707fef9dbb0ac24115867c987a5', '0x' + KEY_X.hex(), '0x' + '22' * 32, '0x02' + '00' * 32, '0x04' + '11' * 64, '0x' + '11' * 20]))
        ss = draw(st.sampled_from(['0x3006020101020101', '0x' + '33' * 64, '0x' + '33' * 65, '0x' + '33' * 63, '0x', '0x30', '0x' + '30' * 72]))
        return 'verify_sig([%s %s %s])' % (hs, ks, ss)
    k = draw(st.integers(0, 5))
    if k == 0 and depth > 0:
        inner = draw(inline_expr(depth - 1))
    elif k <= 2:
        inner = '[' + ' '.join(draw(st.sampled_from(INLINE_ARGS)) for _ in range(draw(st.integers(0, 3)))) + ']'
    else:
        inner = draw(st.sampled_from(INLINE_ARGS))
    return '%s(%s)' % (f, inner)


@st.composite
def btcc_cmd(draw):
    kind = draw(st.sampled_from(['tokens', 'junk', 'deep', 'long', 'unbalanced', 'inline', 'inline']))
    if kind == 'inline':
        argv = [draw(st.one_of(inline_expr(), st.sampled_from(['OP_1', '0x01', '[OP_1]']))) for _ in range(draw(st.integers(1, 3)))]
        return dict(tool='btcc', argv=argv, stdin=b'', component='btcc:inline')
    if kind == 'tokens':
        toks = draw(st.lists(c07.tokens(3), min_size=0, max_size=10))
        from ..ref import asm_model as A
        argv = [A.render(t) for t in toks]
    elif kind == 'junk':
        argv = [junk_text(draw) for _ in range(draw(st.integers(1, 4)))]
    elif kind == 'deep':
        d = draw(st.sampled_from([50, 200, 1000, 5000, 20000]))
        # nesting of brackets, of inline function calls, and of both
        argv = [draw(st.sampled_from(['[' * d + 'OP_1' + ']' * d, 'a(' * d + '1' + ')' * d, 'echo(' * d + '0x01' + ')' * d, 'sha256([' * min(d, 2000) + '0x01' + '])' * min(d, 2000)]))]
    elif kind == 'long':
        n = draw(st.sampled_from([1000, 20000, 100000]))
        argv = [draw(st.sampled_from(['[' + 'OP_1 ' * n + ']', '0x' + 'ab' * n, 'OP_1 ' * 5 + '#' + 'c' * n, '[' + '0x01 ' * n + ']']))]
    else:
        argv = [draw(st.sampled_from(['[', '[[OP_1]', '[OP_1]]', ']', '][', '[OP_1', 'OP_1]', '[OP_1 [OP_2]', '[#]', '[ # ]\n', '[[][]]']))] + [junk_text(draw) for _ in range(draw(st.integers(0, 1)))]
    return dict(tool='btcc', argv=argv, stdin=b'', component='btcc:' + kind)


KEY_X = secp.xonly(secp.gen(12345))


@st.composite
def tap_cmd(draw):
    kind = draw(st.sampled_from(['valid', 'counts', 'key', 'txs', 'junk', 'index', 'consistent', 'consistent', 'prefix']))
    n = draw(st.integers(1, 6))
    scripts = ['0x' + draw(st.sampled_from([b'\x51', b'\x75\x51', R.push_enc(KEY_X) + b'\xac'])).hex() for _ in range(n)]
    argv = [KEY_X.hex(), str(n)] + scripts
    if kind == 'counts':
        argv[1] = draw(st.sampled_from(['0', '-1', '1025', '99999999999999999999', 'abc', '', str(n + 1), str(n + 5)]))
    elif kind == 'key':
        argv[0] = draw(st.sampled_from(['', '00', 'zz', KEY_X.hex()[:-2], KEY_X.hex() + '00', '00' * 32, 'ff' * 32, (secp.P).to_bytes(32, 'big').hex(), '0x' + KEY_X.hex()]))
    elif kind == 'txs':
        rnd = draw(st.randoms(use_true_random=False))
        c = S.build(rnd, draw(st.sampled_from(['p2tr-key', 'p2tr-script', 'p2wpkh', 'p2pkh'])), ninputs=draw(st.sampled_from([1, 1, 2, 3])))
        txh, inh = c['tx'].ser().hex(), c['fund'].ser().hex()
        m = draw(st.sampled_from(['asis', 'truncate-tx', 'truncate-txin', 'empty', 'only-tx', 'vout-oob', 'nonhex', 'no-inputs']))
        if m == 'truncate-tx':
            txh = txh[:draw(st.integers(0, len(txh) // 2 - 1)) * 2]
        elif m == 'truncate-txin':
            inh = inh[:draw(st.integers(0, len(inh) // 2 - 1)) * 2]
        elif m == 'empty':
            txh = ''
        elif m == 'vout-oob':
            c['tx'].vin[c['idx']]['n'] = 77
            txh = c['tx'].ser().hex()
        elif m == 'nonhex':
            inh = 'zz' + inh
        elif m == 'no-inputs':
            txh = '02000000000000000000'
        argv = (['--tx=' + txh] if m != 'only-txin' else []) + ([] if m == 'only-tx' else ['--txin=' + inh]) + argv
        if draw(st.booleans()):
            argv += [draw(st.sampled_from(['0', str(n - 1), str(n), '-1', 'abc']))] + [junk_text(draw) for _ in range(draw(st.integers(0, 2)))]
        if draw(st.integers(0, 3)) == 0:
            argv = [draw(st.sampled_from(['--sig=', '--sig=zz', '--sig=' + '00' * 64, '--sig=' + '11' * 200, '--privkey=00']))] + argv
    elif kind == 'consistent':
        # a funding output that really commits to the (single-leaf) tree, so that tap gets past its pubkey check into witness construction / sighash
        sc = draw(st.sampled_from([b'\x75\x51', R.push_enc(KEY_X) + b'\xac']))
        leaf = V.tapleaf(0xc0, sc)
        q, par = secp.taproot_tweak_pub(KEY_X, leaf)
        fund = T.Tx()
        fund.vin = [dict(txid=bytes(32), n=0, script=b'\x51', seq=0xffffffff, wit=[])]
        fund.vout = [dict(value=5000, spk=b'\x51\x20' + q)] + [dict(value=1, spk=b'\x51')] * draw(st.integers(0, 2))
        tx = T.Tx()
        nin = draw(st.sampled_from([1, 1, 2, 3]))
        tx.vin = [dict(txid=bytes([i]) * 32, n=i, script=b'', seq=0xffffffff, wit=[]) for i in range(nin)]
        k = draw(st.integers(0, nin - 1))
        tx.vin[k]['txid'] = fund.txid()
        tx.vin[k]['n'] = draw(st.sampled_from([0, 0, 0, 1, 5]))
        # the spending input as it arrives: normally empty (tap fills it in), but also with a scriptSig / witness already present
        tx.vin[k]['script'] = draw(st.sampled_from([b'', b'', b'', b'\x51', b'\x00', b'\x16' + bytes(22), b'\x4c', b'\x22' + b'\x51\x20' + bytes(32)]))
        tx.vin[k]['wit'] = draw(st.sampled_from([[], [], [], [b'\x01'], [b''], [bytes(64)], [b'\x50'], [bytes(64), b'\x50\x01'], [b'\x01', sc, bytes([0xc0 | par]) + KEY_X]]))
        tx.vout = [dict(value=1, spk=b'\x51')] * draw(st.integers(0, 2))
        argv = ['--tx=' + tx.ser().hex(), '--txin=' + fund.ser().hex(), KEY_X.hex(), '1', '0x' + sc.hex()]
        if draw(st.booleans()):
            argv += ['0'] + [junk_text(draw) for _ in range(draw(st.integers(0, 2)))]
        if draw(st.integers(0, 2)) == 0:
            argv = [draw(st.sampled_from(['--sig=' + '00' * 64, '--sig=' + '11' * 65, '--sig=', '--sig=zz']))] + argv
    elif kind == 'prefix':
        argv = ['--addrprefix=' + draw(st.one_of(st.sampled_from(['BC', 'Bc', 'tB', '', ' ', '1', 'bc1', 'a' * 84, 'a' * 300, 'b c', '\x7f', 'ä', 'bc\t', '-', '--', 'BCRT']), st.text(alphabet='abcXYZ019 _-', max_size=6)))] + argv
        if draw(st.booleans()):
            argv += ['0']
    elif kind == 'junk':
        argv = [junk_text(draw) for _ in range(draw(st.integers(0, 5)))]
    elif kind == 'index':
        argv += [draw(st.sampled_from(['0', str(n), '999999999999', '-1', '', 'x'])), junk_text(draw)]
    argv = [a for a in argv if not (a.startswith('-') and not a.startswith('--') and kind in ('junk', 'index', 'txs'))]
    return dict(tool='tap', argv=argv, stdin=b'', component='tap:' + kind)


def cmd_json(c):
    return dict(tool=c['tool'], argv=[a if len(a) < 4000 else dict(prefix=a[:200], repeat_len=len(a), tail=a[-40:]) for a in c['argv']], full_argv=c['argv'] if sum(len(a) for a in c['argv']) < 20000 else None,
                stdin=c['stdin'].hex() if len(c['stdin']) < 4000 else dict(prefix=c['stdin'][:100].hex(), length=len(c['stdin'])), component=c['component'], stdin_tty=bool(c.get('stdin_tty')))


def check_cmd(c, ctx, variant='asan'):
    if any('\x00' in a for a in c['argv']):
        return
    if sum(len(a) for a in c['argv']) > 120000:
        return
    ctx.case(repr((c['tool'], c['argv'], c['stdin'])), True, cmd_json(c), c['component'])
    r = cli.run(cli.binpath(c['tool'], variant), c['argv'], stdin=c['stdin'], stdin_tty=bool(c.get('stdin_tty')), timeout=30)
    if r.timed_out:
        ctx.inconclusive += 1
        return
    ab = r.abnormal
    if ab:
        sig = root_cause(c, r)
        if sig and core.kf_active(sig):
            ctx.known_hit(sig, cmd_json(c))
            return
        raise Violation(c, '%s terminated abnormally (%s) [component %s]: %s' % (c['tool'], ab, c['component'], (r.err.decode(errors='replace')[-400:]).replace('\n', ' | ')), observed=repr(r)[-600:])
    ctx.count('exit:%s:%s' % (c['tool'], r.rc))
    # "terminate by themselves with a result or a diagnostic": a failing exit status with nothing at all on stdout and stderr is neither
    if r.rc != 0 and not r.out.strip() and not r.err.strip():
        raise Violation(c, '%s ended with exit status %d and printed nothing at all - neither a result nor a diagnostic [component %s]' % (c['tool'], r.rc, c['component']), observed=repr(r)[-300:])
    # what btcdeb lists for a spend is derived from the scripts of the two transactions: more output lines than those scripts have bytes means it is
    # listing memory that is not its input (a script listing walking past the end of a script) - invisible to the sanitizers when the bytes
    # happen to lie in owned memory
    if c['tool'] == 'btcdeb' and c['component'].startswith('spend'):
        nbytes = 0
        try:
            for a_ in c['argv']:
                if a_.startswith('--tx=') or a_.startswith('--txin='):
                    t_ = T.Tx.parse(bytes.fromhex(a_.split('=', 1)[1].split(':')[-1]))
                    nbytes += sum(len(v['script']) + sum(len(w) + 1 for w in v['wit']) for v in t_.vin) + sum(len(o['spk']) for o in t_.vout)
        except Exception:
            nbytes = None
        nlines = r.out.count(b'\n')
        if nbytes is not None and nlines > nbytes + 60:
            raise Violation(c, 'btcdeb prints %d lines for a spend whose scripts and witness items have %d bytes in all [component %s]: it lists memory that is not part of its input' % (
                nlines, nbytes, c['component']), observed=[nlines, r.out[:300].decode(errors='replace')])


def root_cause(c, r):
    return None


# ---------------------------------------------------------------- (b) REPL command sequences
def _bech32_edges():
    from ..ref import bech32 as B32
    out = []
    for hrp in ('a', 'bcrt', 'bc'):
        for data in ([], [0], [1], [1, 0], [16], [0] * 3):
            for const in (B32.BECH32_CONST, B32.BECH32M_CONST):
                out.append(B32.encode(hrp, data, const))
    return out


BECH32_EDGES = _bech32_edges()


@st.composite
def repl_special(draw):
    """sessions aimed at state shared between commands: P2SH-shaped plain scripts with too few stack items (failing steps keep advancing),
    scripts with signature checks after a point where `exec OP_CODESEPARATOR` may be issued"""
    k = draw(st.integers(0, 2))
    if k == 0:
        redeem = b'\x51' * draw(st.integers(1, 40))
        script = b'\xa9\x14' + R.ripemd(R.sha256(redeem)) + b'\x87'
        stack = [redeem] if draw(st.integers(0, 2)) == 0 else []
        return dict(kind='p2sh-short-stack', kw=dict(script=script, stack=stack, flags=SS.STD, sv=R.BASE))
    key = bytes([2]) + bytes(range(1, 33))
    sig = secp.der_sig(1, 1) + b'\x01'
    script = b'\x61' * draw(st.integers(0, 3)) + G.push(sig, 1) + G.push(key, 1) + draw(st.sampled_from([b'\xac', b'\xad\x51', b'\x51' + b'\x7c' + b'\x51\xae']))
    return dict(kind='checksig-after-exec', kw=dict(script=script, stack=[], flags=SS.STD & ~F['CONST_SCRIPTCODE'] & ~F['NULLFAIL'], sv=R.BASE))


@st.composite
def repl_case(draw):
    sess = draw(st.one_of(SS.plain('ctrl'), SS.plain('mixed'), SS.plain('arith'), SS.legacy_spend(), SS.tapscript_spend(), repl_special()))
    if 'spendtx' not in sess['kw']:
        sess['kw']['sv'] = R.BASE
    n = draw(st.integers(1, 12))
    cmds = []
    if draw(st.integers(0, 5)) == 0:
        # scenario: some steps, one `exec` phrase that moves / leaves behind interpreter-internal state (code separator inside exec's temporary
        # script, followed by an operation that fails or throws, or inside a skipped branch), then steps on to the signature checks
        phrase = draw(st.sampled_from(['exec OP_CODESEPARATOR OP_1ADD', 'exec OP_CODESEPARATOR 0102030405 OP_1ADD', 'exec OP_CODESEPARATOR OP_2DROP OP_2DROP OP_2DROP OP_2DROP',
                                       'exec OP_CODESEPARATOR OP_RETURN', 'exec OP_0 OP_IF OP_CODESEPARATOR OP_ENDIF', 'exec OP_CODESEPARATOR', 'exec OP_CODESEPARATOR OP_FROMALTSTACK',
                                       'exec OP_CODESEPARATOR 2147483648 OP_NEGATE', 'exec OP_1 OP_IF OP_CODESEPARATOR', 'exec OP_CODESEPARATOR OP_PICK']))
        cmds = ['step'] * draw(st.integers(0, 8)) + [phrase] + draw(st.sampled_from([[], [], ['rewind'], ['print'], [phrase]])) + ['step'] * draw(st.integers(1, 10))
        return dict(sess=sess, cmds=cmds)
    for _ in range(n):
        k = draw(st.integers(0, 11))
        if k < 3:
            cmds.append('step')
        elif k < 5:
            cmds.append('rewind')
        elif k == 5:
            cmds.append(draw(st.sampled_from(['stack', 'altstack', 'vfexec', 'print', 'help', 'help exec', 'nosuchcommand', ''])))
        elif k < 8:
            toks = [draw(st.one_of(st.sampled_from(['OP_DUP', 'DUP', '1ADD', 'OP_ADD', 'OP_IF', 'OP_ENDIF', 'OP_ELSE', 'OP_TOALTSTACK', 'OP_FROMALTSTACK', 'OP_CHECKSIG', 'OP_CHECKMULTISIG', 'OP_PICK', 'OP_ROLL', 'OP_VERIFY',
                                                         'OP_RETURN', 'OP_CAT', 'OP_CODESEPARATOR', 'OP_CODESEPARATOR', 'OP_CHECKSIGVERIFY', 'OP_HASH160', 'OP_EQUAL', '2147483648', '-2147483649', '99999999999', '0x01', '0102030405', 'zz', '', '[OP_1]', 'OP_x', '5', 'ff', '00']),
                                       st.text(alphabet='0123456789abcdefOP_', max_size=8))) for _ in range(draw(st.integers(0, 4)))]
            cmds.append('exec ' + ' '.join(toks))
        else:
            name = draw(st.sampled_from(c14.ALL_TF + ['nosuch', '-h', '']))
            args = [draw(st.one_of(st.just(junk_text(draw)), st.binary(max_size=40).map(lambda b: '0x' + b.hex()), st.sampled_from(['xyz', '1', '0', '-1', 'abc', '1PqhyaTFgaHeYVmi5qBV9AjjeiyiTV1hpx', 'bcrt1qqqqqq'] + BECH32_EDGES))) for _ in range(draw(st.integers(0, 3)))]
            cmds.append(('tf %s %s' % (name, ' '.join(args))).strip())
    cmds = [c.replace('\n', ' ').replace('\r', ' ').replace('\x00', '') for c in cmds]
    return dict(sess=sess, cmds=cmds)


def repl_json(c):
    kw = c['sess']['kw']
    if 'spendtx' in kw:
        return dict(spendtx=kw['spendtx'], spendtxin=kw['spendtxin'], cmds=c['cmds'])
    return dict(script=kw['script'].hex(), stack=[x.hex() for x in kw['stack']], flags=kw.get('flags'), cmds=c['cmds'])


def repl_argv(kw):
    if 'spendtx' in kw:
        return ['--tx=' + kw['spendtx'], '--txin=' + kw['spendtxin']]
    mods = []
    if kw.get('flags') is not None:
        for n in R.FLAGS:
            if (SS.STD & F[n]) and not (kw['flags'] & F[n]):
                mods.append('-' + n)
    return (['--modify-flags=' + ','.join(mods)] if mods else []) + ['0x' + kw['script'].hex()] + ['0x' + x.hex() for x in kw['stack']]


def check_repl(c, ctx, variant='asan'):
    kw = c['sess']['kw']
    if any(not all(32 <= ord(ch) < 127 for ch in cmd) for cmd in c['cmds']):
        return
    if 'spendtx' not in kw and kw.get('flags') is not None and kw['flags'] != SS.STD:
        pass
    ctx.case(repr(repl_json(c)), True, repl_json(c), 'repl')
    rp = cli.Repl(repl_argv(kw), variant=variant)
    blocks, err, status = rp.session(c['cmds'], timeout=40)
    for cmd in c['cmds']:
        ctx.count('repl-cmd:' + (cmd.split(' ')[0] or '(empty)') if cmd.split(' ')[0] in ('step', 'rewind', 'exec', 'tf', 'print', 'stack', 'altstack', 'vfexec', 'help') else 'repl-cmd:other')
    if status == 'timeout':
        ctx.inconclusive += 1
        return
    if status.startswith('died:') and int(status[5:]) > 0 and err.strip() and not any(p_ in err for p_ in ('AddressSanitizer', 'runtime error:', 'terminate called', 'Assertion')):
        # the tool ended by itself with an exit status and a diagnostic (e.g. exit(1) on an unparsable expression): allowed by the statement
        ctx.count('repl-exited-with-diagnostic')
        return
    if status.startswith('died'):
        # which command killed it
        k = max(0, len(blocks) - 2)
        culprit = c['cmds'][k] if k < len(c['cmds']) else '?'
        raise Violation(c, 'REPL died (%s) on command %d %r: %s' % (status, k, culprit[:80], err[-300:].replace('\n', ' | ')), observed=err[-500:])
    for pat in ('AddressSanitizer', 'runtime error:', 'terminate called', 'Assertion'):
        if pat in err:
            raise Violation(c, 'REPL session reported %s: %s' % (pat, err[-300:].replace('\n', ' | ')), observed=err[-500:])


def w_cmds(ctx, wid, seed, examples, tool):
    strat = {'btcdeb': btcdeb_cmd(), 'btcc': btcc_cmd(), 'tap': tap_cmd()}[tool]
    core.hyp_campaign(ctx, 'cmd-' + tool, strat, check_cmd, examples, seed, cmd_json)


def w_repl(ctx, wid, seed, examples):
    core.hyp_campaign(ctx, 'repl', repl_case(), check_repl, examples, seed, repl_json)


# ---------------------------------------------------------------- (b2) command sequences through the sanitizer build of the native harness
EXEC_PHRASES = ['OP_CODESEPARATOR OP_1ADD', 'OP_CODESEPARATOR 0102030405 OP_1ADD', 'OP_CODESEPARATOR OP_2DROP OP_2DROP OP_2DROP OP_2DROP', 'OP_CODESEPARATOR OP_RETURN',
                'OP_0 OP_IF OP_CODESEPARATOR OP_ENDIF', 'OP_CODESEPARATOR', 'OP_CODESEPARATOR OP_FROMALTSTACK', 'OP_CODESEPARATOR 2147483648 OP_NEGATE', 'OP_1 OP_IF OP_CODESEPARATOR',
                'OP_CODESEPARATOR OP_PICK', 'OP_DUP OP_CHECKSIG', 'OP_2DUP OP_CHECKSIGVERIFY', 'OP_CHECKMULTISIG', 'OP_TOALTSTACK', 'OP_FROMALTSTACK', 'OP_IF', 'OP_ENDIF', 'OP_ELSE', 'OP_VERIFY', 'OP_DROP',
                'OP_2DROP OP_2DROP', '0102030405 OP_1ADD', 'OP_1ADD', 'OP_DEPTH OP_ROLL', 'OP_CHECKSIGADD', 'OP_CODESEPARATOR OP_DUP OP_CHECKSIG']
_HA = {}


def harness_asan():
    if 'h' not in _HA:
        from ..harness import Harness
        _HA['h'] = Harness('asan', timeout=60.0)
    return _HA['h']


@st.composite
def der_edge_session(draw):
    """signature checks on byte strings shaped like DER signatures whose LENGTH FIELDS sit on the boundaries of the buffer (the encoding test indexes the
    signature by those fields): total size 9..74, R length = size-8 .. size-3 and other edge values, S length consistent, one off, or an edge value"""
    size = draw(st.sampled_from([9, 9, 10, 11, 33, 40, 71, 72, 73, 73, 73, 74]))
    lenR = draw(st.sampled_from([size - 8, size - 7, size - 7, size - 6, size - 6, size - 5, size - 5, size - 5, size - 4, size - 4, size - 3, 0, 1, 33, 0x80, 0xff])) & 0xff
    b = bytearray([1] * size)
    b[0] = draw(st.sampled_from([0x30] * 9 + [0x31]))
    b[1] = (size - 3 + draw(st.sampled_from([0] * 8 + [1, -1]))) & 0xff
    b[2] = 2
    b[3] = lenR
    if 4 + lenR < size:
        b[4 + lenR] = draw(st.sampled_from([2, 2, 2, 3]))
    if 5 + lenR < size:
        b[5 + lenR] = draw(st.sampled_from([size - lenR - 7, size - lenR - 7, size - lenR - 6, size - lenR - 8, 0, 1, 0x80])) & 0xff
    b[-1] = draw(st.sampled_from([1, 1, 2, 3, 0x81, 0]))
    key = bytes([2]) + bytes([0xaa] * 32)
    how = draw(st.integers(0, 2))
    if how == 0:
        script = G.push(bytes(b), 1) + G.push(key, 1) + b'\xac'
    elif how == 1:
        script = b'\x00' + G.push(bytes(b), 1) + b'\x51' + G.push(key, 1) + b'\x51\xae'
    else:
        script = G.push(bytes(b), 1) + G.push(key, 1) + b'\xad\x51'
    flags = draw(st.sampled_from([SS.STD, SS.STD, SS.STD, F['DERSIG'], F['STRICTENC'], F['LOW_S'], F['DERSIG'] | F['NULLFAIL'], 0]))
    return dict(kind='plain-dersig', kw=dict(script=script, stack=[], flags=flags, sv=draw(st.sampled_from([R.BASE, R.WITNESS_V0]))))


@st.composite
def asan_session_case(draw):
    if draw(st.integers(0, 3)) == 0:
        return dict(sess=draw(der_edge_session()), cmds=['s'] * 6)
    sess = draw(st.one_of(SS.legacy_spend(), SS.legacy_spend(), SS.tapscript_spend(), SS.codesep_mock(), SS.multi_script(), repl_special(), SS.plain('ctrl')))
    cmds = []
    for _ in range(draw(st.integers(1, 5))):
        k = draw(st.integers(0, 9))
        if k < 4:
            cmds += ['s'] * draw(st.integers(1, 9))
        elif k < 6:
            cmds += ['r'] * draw(st.integers(1, 4))
        else:
            cmds.append('e:' + draw(st.sampled_from(EXEC_PHRASES)))
    return dict(sess=sess, cmds=cmds)


def asan_session_json(c):
    kw = c['sess']['kw']
    return dict(kind=c['sess']['kind'], session={a: (b.hex() if isinstance(b, bytes) else [x.hex() if isinstance(x, bytes) else x for x in b] if isinstance(b, list) else b) for a, b in kw.items()}, cmds=c['cmds'])


def check_asan_session(c, ctx):
    from ..harness import kvline
    kw = dict(c['sess']['kw'])
    kw['cmds'] = ','.join(x if not x.startswith('e:') else 'e:' + '+'.join(t.encode().hex() for t in x[2:].split(' ')) for x in c['cmds'])
    kw['finish'] = 1
    nexec = sum(1 for x in c['cmds'] if x.startswith('e:'))
    ctx.case('as' + repr(asan_session_json(c)), True, asan_session_json(c), 'asan-session:' + c['sess']['kind'].split('-')[0])
    ctx.count('asan-session-with-exec' if nexec else 'asan-session-steps-only')
    h = harness_asan()
    r = h.req(kvline('session', **kw))
    if 'timeout' in r:
        ctx.inconclusive += 1
        return
    if 'crash' in r or 'exit' in r:
        raise Violation(asan_session_json(c), 'command sequence %r kills the sanitizer build of the session harness: %r' % (c['cmds'], r), observed=r)
    if 'refused' in r:
        return
    # the start of the signed script code always lies inside the debugged script
    for e in r['log']:
        d = e['d']
        if not (0 <= d['cs'] <= d['slen']):
            raise Violation(asan_session_json(c), 'after command %r the start of the signed script code points outside the script (offset %d, script length %d)' % (e['c'], d['cs'], d['slen']), observed=d)


def w_asan_sessions(ctx, wid, seed, examples):
    core.hyp_campaign(ctx, 'asan-sessions', asan_session_case(), check_asan_session, examples, seed, asan_session_json)


# ---------------------------------------------------------------- (c) libFuzzer targets
def fuzz_targets():
    d = os.path.join(build.NATIVE, 'fuzz')
    return sorted(f[:-4] for f in os.listdir(d) if f.endswith('.cpp')) if os.path.isdir(d) else []


def w_fuzz(ctx, wid, seed, target, seconds, jobs):
    bindir = build.ensure('fuzz', quiet=True)
    exe = os.path.join(bindir, target)
    corpus_src = os.path.join(core.VERIF, 'corpus', target)
    work = tempfile.mkdtemp(prefix='vf-fuzz-%s.' % target, dir=os.environ.get('VERIF_SCRATCH', '/var/tmp'))
    try:
        corpus = os.path.join(work, 'corpus')
        art = os.path.join(work, 'artifacts') + '/'
        os.makedirs(corpus)
        os.makedirs(art)
        if os.path.isdir(corpus_src):
            for f in os.listdir(corpus_src):
                shutil.copy(os.path.join(corpus_src, f), corpus)
        env = dict(os.environ, ASAN_OPTIONS='detect_leaks=0:abort_on_error=1:alloc_dealloc_mismatch=1:symbolize=1', UBSAN_OPTIONS='halt_on_error=1')
        cmd = [exe, corpus, '-artifact_prefix=' + art, '-seed=%d' % (seed % (2 ** 31 - 1) + 1), '-max_total_time=%d' % seconds, '-timeout=20', '-rss_limit_mb=3000', '-print_final_stats=1', '-max_len=4096']
        if jobs > 1:
            cmd += ['-fork=%d' % jobs, '-ignore_timeouts=1', '-ignore_ooms=1', '-ignore_crashes=0']
        p = subprocess.run(cmd, stdout=subprocess.PIPE, stderr=subprocess.STDOUT, cwd=work, env=env, timeout=seconds + 300)
        out = p.stdout.decode(errors='replace')
        execs = 0
        for l in out.splitlines():
            if 'stat::number_of_executed_units' in l:
                execs = int(l.split(':')[-1])
            elif l.startswith('#') and ': cov:' in l:
                # -fork mode progress line: '#<total execs>: cov: ...'
                try:
                    execs = max(execs, int(l[1:].split(':')[0]))
                except ValueError:
                    pass
            elif l.startswith('#') and 'DONE' in l:
                try:
                    execs = max(execs, int(l[1:].split()[0]))
                except ValueError:
                    pass
        ncorp = len(os.listdir(corpus))
        ctx.evals += execs
        ctx.count('fuzz-execs:' + target, execs)
        ctx.count('fuzz-corpus:' + target, ncorp)
        for i, f in enumerate(sorted(os.listdir(corpus))[:400]):
            ctx.nontrivial.add(('%s:%s' % (target, f)).encode()[:8] + bytes([i % 256]) + f.encode()[:8])
        ctx.samples.setdefault('fuzz:' + target, []).append(dict(target=target, executions=execs, corpus_units=ncorp, seconds=seconds))
        arts = [f for f in os.listdir(art) if f.startswith('crash-') or f.startswith('leak-')]
        for f in arts[:2]:
            keep = os.path.join(core.REPLAYS, PID)
            os.makedirs(keep, exist_ok=True)
            dst = os.path.join(keep, '%s-%s' % (target, f))
            shutil.copy(os.path.join(art, f), dst)
            data = open(dst, 'rb').read()
            tail = out[-1500:]
            ctx.violations.append(dict(campaign='fuzz-' + target, why='libFuzzer target %s: %s (input of %d bytes saved as %s)' % (target, f.split('-')[0], len(data), dst), case=dict(target=target, artifact=dst, input_hex=data.hex()[:2000]), observed=tail, refails=3))
    finally:
        shutil.rmtree(work, ignore_errors=True)


# ---------------------------------------------------------------- (d) valgrind sample
def w_valgrind(ctx, wid, seed, examples):
    import hypothesis
    from hypothesis import given, settings, HealthCheck, Phase
    cases = []

    @settings(max_examples=examples, database=None, deadline=None, suppress_health_check=list(HealthCheck), phases=[Phase.generate], verbosity=hypothesis.Verbosity.quiet)
    @hypothesis.seed(seed)
    @given(st.one_of(btcdeb_cmd(), btcc_cmd(), tap_cmd()))
    def collect(c):
        cases.append(c)
    collect()
    # directed cases memcheck sees in every run (uninitialised reads are invisible to the sanitizer build): unusual hash types reaching the signature hash
    directed = []

    @settings(max_examples=4, database=None, deadline=None, suppress_health_check=list(HealthCheck), phases=[Phase.generate], verbosity=hypothesis.Verbosity.quiet)
    @hypothesis.seed(seed + 1)
    @given(btcdeb_cmd().filter(lambda c: c['component'] == 'spend-hashtype'))
    def collect2(c):
        directed.append(c)
    collect2()
    for c in directed + cases:
        if sum(len(a) for a in c['argv']) > 20000 or any('\x00' in a for a in c['argv']) or c['component'] in ('btcc:deep', 'btcc:long'):
            continue
        exe = cli.binpath(c['tool'], 'plain')
        r = cli.run('/usr/bin/valgrind', ['-q', '--error-exitcode=97', '--track-origins=no', '--undef-value-errors=yes', exe] + c['argv'], stdin=c['stdin'], timeout=120, env=cli.base_env({'PATH': '/usr/bin:/bin'}))
        ctx.case('vg' + repr((c['tool'], c['argv'], c['stdin'])), True, dict(cmd_json(c), valgrind=True), 'valgrind:' + c['tool'])
        if r.timed_out:
            ctx.inconclusive += 1
            continue
        if r.rc == 97 or b'Invalid read' in r.err or b'Invalid write' in r.err or b'uninitialised' in r.err:
            sig = root_cause(c, r)
            ctx.violations.append(dict(campaign='valgrind', why='valgrind memcheck reports an error for %s [%s]: %s' % (c['tool'], c['component'], r.err.decode(errors='replace')[:500].replace('\n', ' | ')), case=cmd_json(c), refails=3))
            return


def run(tier, t0):
    W = core.WORKERS
    if tier == 'quick':
        n, nr, fz, nv, jobs = 160, 60, 15, 6, 1
    else:
        n, nr, fz, nv, jobs = 6000, 2500, 240, 250, 4
    tasks = []
    for tool, share in (('btcdeb', 8), ('btcc', 2), ('tap', 3)):
        tasks += [(w_cmds, dict(examples=n, tool=tool)) for _ in range(share)]
    tasks += [(w_repl, dict(examples=nr)) for _ in range(4 if tier == 'quick' else 8)]
    tasks += [(w_asan_sessions, dict(examples=nr * 12)) for _ in range(2 if tier == 'quick' else 4)]
    tasks += [(w_valgrind, dict(examples=nv)) for _ in range(2 if tier == 'quick' else 6)]
    fts = fuzz_targets()
    if fts:
        build.ensure('fuzz')
        tasks += [(w_fuzz, dict(target=t, seconds=fz, jobs=jobs)) for t in fts]
    m = core.parallel(PID, tasks)
    return core.finish(PID, tier, m, RULE, t0, min_nontrivial=800 if tier == 'quick' else 30000, extra=dict(fuzz_targets=fts),
                       assumptions=['sanitizer build: g++ -O1 -fsanitize=address + UBSan subset (integer-divide-by-zero, bounds, null, unreachable, return); signed overflow / shifts are not part of the statement',
                                    'uninitialised reads are covered by the valgrind sample only (no instrumented libstdc++ for MSan)', 'leaks are not in the statement (detect_leaks=0)',
                                    'libFuzzer campaigns are pinned only approximately by -seed; the saved artifact is the reproducible unit'])


def replay(rec):
    c = rec['case']
    if 'artifact' in c:
        exe = os.path.join(build.ensure('fuzz'), c['target'])
        p = subprocess.run([exe, c['artifact']], stdout=subprocess.PIPE, stderr=subprocess.STDOUT)
        return p.returncode == 0, p.stdout.decode(errors='replace')[-800:]
    ctx = core.Ctx(PID)
    try:
        if 'cmds' in c and 'session' in c:
            kw = {}
            for a, b in c['session'].items():
                kw[a] = bytes.fromhex(b) if a in ('script', 'succ') and isinstance(b, str) else ([bytes.fromhex(x) for x in b] if isinstance(b, list) else b)
            check_asan_session(dict(sess=dict(kind=c.get('kind', '?'), kw=kw), cmds=c['cmds']), ctx)
        elif 'cmds' in c and 'spendtx' in c:
            check_repl(dict(sess=dict(kw=dict(spendtx=c['spendtx'], spendtxin=c['spendtxin'])), cmds=c['cmds']), ctx)
        elif 'cmds' in c:
            check_repl(dict(sess=dict(kw=dict(script=bytes.fromhex(c['script']), stack=[bytes.fromhex(x) for x in c['stack']], flags=c.get('flags'))), cmds=c['cmds']), ctx)
        elif c.get('full_argv') is not None:
            check_cmd(dict(tool=c['tool'], argv=c['full_argv'], stdin=bytes.fromhex(c['stdin']) if isinstance(c['stdin'], str) else b'', component=c['component'], stdin_tty=c.get('stdin_tty')), ctx)
        else:
            return True, 'argv too large to store; rerun the quick tier'
    except Violation as v:
        return False, 'still failing: %s' % v.why
    return True, 'ok'
