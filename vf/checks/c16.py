"""C16 - `exec a b c` applies operations exactly as the script would.

Case: a session prefix (k steps into a generated session, incl. inside unexecuted branches / non-empty alt stack) and a token
list in the forms Instance::eval documents (opcode names with/without OP_, small integers, bare even-length hex pushes).
Oracle: the reference interpreter executes the compiled tokens on the pre-state (stack, alt stack, condition stack, op count,
flags, version) -> expected post-state / error identity; position, remaining script and curr_op_seq must be unchanged; and
(plain sessions) continuing afterwards must behave as the reference continuing from the post-state."""
from hypothesis import strategies as st

from .. import core
from ..core import Violation
from ..harness import Harness, kvline
from ..ref import script as R, asm_model as A
from ..ref.opcodes import NAMES
from ..ref.script import F
from ..gen import scripts as G, sessions as SS

PID = 'C16'
RULE = ('(session, k, tokens): session from the shared session strategies, k steps executed first, then `exec tokens` (1-8 tokens: opcode names, small integers, bare hex pushes), then the '
        'session is continued to the end; non-trivial = the pre-state is not the initial state and the token list changes the alt stack or the condition stack or fails; distinct = hash of the case')
_H = {}


def harness():
    if 'h' not in _H:
        _H['h'] = Harness('plain')
    return _H['h']


SAFE_OPS = [op for op in NAMES if op >= 0x4f and op not in (0xac, 0xad, 0xae, 0xaf, 0xba)]


@st.composite
def token(draw):
    k = draw(st.integers(0, 9))
    if k < 4:
        op = draw(st.sampled_from(SAFE_OPS + [0x00]))
        n = NAMES[op]
        return ('op', n if draw(st.booleans()) else n[3:], op)
    if k < 7:
        n = draw(st.one_of(st.integers(-20, 20), st.sampled_from([127, 128, 255, 256, -127, -128, 32767, 65535, 2 ** 31 - 1, -(2 ** 31 - 1), 500000000, 2 ** 31, 2 ** 31 + 1, -(2 ** 31), -(2 ** 31) - 1, 2 ** 32, 2 ** 40 + 5,
                                                              2 ** 63 - 1, -(2 ** 63) + 1, 4294967297])))
        if n == 0:
            return ('op', '0', 0x00)
        return ('int', n)
    b = draw(st.one_of(st.binary(min_size=1, max_size=4), st.sampled_from([b'\x01', b'\x05', b'\x10', b'\x10', b'\x81', b'\x00', b'\x80', b'\x11', b'\x11', b'\x12', b'\x0f', b'\x82', b'\x00\x00', bytes(20), bytes(75), bytes(76)])))
    text = b.hex()
    if draw(st.integers(0, 3)) == 0:
        return ('hex', b, '0x')         # the spelling the tool's own ambiguity warning recommends (also for digit-only texts: 0x11 is the byte 0x11, 11 the number)
    try:
        if str(int(text)) == text and int(text) != 0:
            return ('int', int(text))
    except ValueError:
        pass
    if ('OP_' + text) in A.BY_NAME:
        return ('op', text, A.BY_NAME['OP_' + text])
    return ('hex', b, '')


@st.composite
def cases(draw):
    sess = draw(st.one_of(SS.plain('ctrl'), SS.plain('altstack'), SS.plain('mixed'), SS.plain('arith'), SS.multi_script()))
    k = draw(st.integers(0, 12))
    toks = draw(st.lists(token(), min_size=1, max_size=8))
    # an earlier `exec` issued right before (no step in between) - often a failing one: what it leaves behind must not leak into the next
    pre = draw(st.one_of(st.none(), st.none(), st.lists(token(), min_size=1, max_size=3),
                         st.sampled_from([[('op', 'OP_CODESEPARATOR', 0xab), ('hex', b'\x01\x02\x03\x04\x05', ''), ('op', 'OP_1ADD', 0x8b)], [('op', '0', 0x00), ('op', 'OP_IF', 0x63), ('op', 'OP_CODESEPARATOR', 0xab), ('op', 'OP_ENDIF', 0x68)],
                                          [('op', 'OP_CODESEPARATOR', 0xab), ('op', 'OP_RETURN', 0x6a)], [('op', 'OP_CODESEPARATOR', 0xab)],
                                          [('hex', b'\x01\x02\x03\x04\x05', ''), ('op', 'OP_1ADD', 0x8b)], [('op', 'OP_RETURN', 0x6a)], [('op', 'OP_2DROP', 0x6d), ('op', 'OP_2DROP', 0x6d), ('op', 'OP_2DROP', 0x6d)],
                                          [('int', 2147483648), ('op', 'OP_NEGATE', 0x8f)], [('op', 'OP_FROMALTSTACK', 0x6c), ('op', 'OP_FROMALTSTACK', 0x6c)]])))
    return (sess, k, toks, pre)


LIMIT_TOKS = [('int', 5), ('hex', b'\xaa\xbb', ''), ('op', 'OP_1', 0x51), ('op', '0', 0x00), ('op', 'OP_DUP', 0x76), ('op', 'OP_2DUP', 0x6e), ('op', 'OP_3DUP', 0x6f), ('op', 'OP_DEPTH', 0x74),
              ('op', 'OP_OVER', 0x78), ('op', 'OP_TUCK', 0x7d), ('op', 'OP_DROP', 0x75), ('op', 'OP_TOALTSTACK', 0x6b), ('op', 'OP_FROMALTSTACK', 0x6c), ('op', 'OP_IFDUP', 0x73), ('op', 'OP_SIZE', 0x82),
              ('op', 'OP_NOP', 0x61), ('op', 'OP_NOP', 0x61), ('op', 'OP_VERIFY', 0x69), ('op', 'OP_1ADD', 0x8b), ('op', 'OP_2OVER', 0x70), ('op', 'OP_1NEGATE', 0x4f)]


@st.composite
def limit_cases(draw):
    """exec at a resource boundary of the session: the stacks hold 997..1000 items (a push / OP_DUP / OP_2DUP at the limit fails AFTER it has pushed), or
    198..201 operations have been counted (the next counted operation is the one too many) - what a failing exec leaves behind shows only here"""
    sv = draw(st.sampled_from(G.SIGVERS))
    if draw(st.booleans()):
        n = draw(st.sampled_from([997, 998, 999, 999, 1000, 1000]))
        nalt = draw(st.sampled_from([0, 0, 1, 3]))
        script = bytes([0x6b]) * nalt + b'\x61\x61'
        stack = [bytes([1 + (i % 5)]) for i in range(n)]
        k = nalt + draw(st.integers(0, 1))
    else:
        n = draw(st.sampled_from([198, 199, 199, 200, 200, 201]))
        script = b'\x51' + b'\x61' * n + b'\x51'
        stack = [b'\x01', b'\x02']
        k = 1 + n
    toks = draw(st.lists(st.sampled_from(LIMIT_TOKS), min_size=1, max_size=4))
    pre = draw(st.one_of(st.none(), st.lists(st.sampled_from(LIMIT_TOKS), min_size=1, max_size=3), st.sampled_from([[('op', '0', 0x00), ('op', 'OP_VERIFY', 0x69)], [('op', 'OP_RETURN', 0x6a)]])))
    return (dict(kind='plain-limits', kw=dict(script=script, stack=stack, flags=draw(st.sampled_from([0, SS.STD])), sv=sv)), k, toks, pre)


def _tj(toks):
    return [[t[0], (t[1].hex() if isinstance(t[1], bytes) else t[1])] + list(t[2:]) for t in toks]


def case_json(case):
    sess, k, toks, pre = case
    kw = {a: (v.hex() if isinstance(v, (bytes, bytearray)) else ([x.hex() for x in v] if isinstance(v, list) else v)) for a, v in sess['kw'].items()}
    return dict(session=kw, kind=sess['kind'], k=k, tokens=[A.render(t) for t in toks], compiled=A.compile_tokens(toks).hex(),
                toks=_tj(toks), pre=_tj(pre) if pre else None)


def case_from_json(j):
    kw = {}
    for a, v in j['session'].items():
        if a in ('script', 'succ'):
            kw[a] = bytes.fromhex(v)
        elif a == 'stack':
            kw[a] = [bytes.fromhex(x) for x in v]
        else:
            kw[a] = v
    un = lambda L: [tuple([t[0], bytes.fromhex(t[1]) if t[0] == 'hex' else t[1]] + t[2:]) for t in L]
    return (dict(kw=kw, kind=j['kind']), j['k'], un(j['toks']), un(j['pre']) if j.get('pre') else None)


def vf_list(s):
    out = []
    ok = True
    for c in s:
        if c == '0':
            ok = False
        out.append(ok)
    return out


def check_case(case, ctx, h=None):
    sess, k, toks, pre = case
    h = h or harness()
    texts = [A.render(t) for t in toks]
    kw = dict(sess['kw'])
    ecmd = lambda T: 'e:' + '+'.join(A.render(t).encode().hex() for t in T)
    kw['cmds'] = ','.join(['s'] * k + ([ecmd(pre)] if pre else []) + [ecmd(toks)])
    kw['finish'] = 1
    r = h.req(kvline('session', **kw))
    if 'timeout' in r:
        ctx.inconclusive += 1
        return
    if 'crash' in r or 'exit' in r:
        raise Violation(case, 'harness died during exec: %r' % r, observed=r)
    if 'refused' in r:
        return
    log = r['log']
    # the k steps must all have succeeded, otherwise the prefix is not a session prefix
    for e in log[:k]:
        if not e['acc']:
            ctx.count('prefix-ended-early')
            return
    npre = 1 if pre else 0
    pre_state = log[k + npre - 1]['d'] if (k + npre) else r['init']
    ex = log[k + npre]
    post = ex['d']
    pre = pre_state
    flags = sess['kw']['flags']
    sv = sess['kw']['sv']
    # reference: execute the compiled tokens on the pre-state
    stt = R.State([bytes.fromhex(x) for x in pre['st']], flags, sv)
    stt.alt = [bytes.fromhex(x) for x in pre['alt']]
    stt.vf = vf_list(pre['vf'])
    stt.nops = pre['ops']
    if sv == R.TAPSCRIPT:
        stt.execdata['weight'] = pre.get('w')
    compiled = A.compile_tokens(toks)
    exp_err = None
    cs = -1
    snap = None
    try:
        for entry in R.decode(compiled):
            # a failing operation takes nothing with it (as a failing step does): the state is the one after the operations before it
            snap = (list(stt.stack), list(stt.alt), list(stt.vf), stt.nops, dict(stt.execdata), cs)
            cs = R.step(stt, compiled, entry, cs)
    except R.ScriptFail as f:
        exp_err = R.ERR.get(f.code, f.code)
    except R.NumErr as f:
        exp_err = 'exc:' + str(f)
    if exp_err is not None and snap is not None:
        stt.stack[:], stt.alt[:], stt.vf[:] = snap[0], snap[1], snap[2]
        stt.nops, cs = snap[3], snap[5]
        stt.execdata.clear()
        stt.execdata.update(snap[4])
    codesep_executed = cs != -1
    changed = (post['alt'] != pre['alt']) or (post['vf'] != pre['vf']) or exp_err is not None
    nontriv = k > 0 and changed
    ctx.case(repr(case_json(case)), nontriv, dict(case_json(case), expected_error=exp_err), sess['kind'])
    ctx.count('exec-fails' if exp_err else 'exec-ok')
    # position and remaining script untouched - always
    for f_ in ('pc', 'seq', 'slen', 'succ', 'p2sh', 'done'):
        if post.get(f_) != pre.get(f_):
            raise Violation(case, 'exec changed the session position / script (%s: %r -> %r)' % (f_, pre.get(f_), post.get(f_)), observed=post.get(f_), expected=pre.get(f_))
    # the start of the signed script code: an EXECUTED code separator among the operations marks the current position of the debugged script
    # (what the same operation would do as the next operation of the script); anything else - also a code separator in a skipped branch - leaves it
    want_cs = pre['pc'] if codesep_executed else pre['cs']
    if codesep_executed:
        ctx.count('exec-executes-codeseparator')
    if post.get('cs') != want_cs:
        raise Violation(case, 'start of the signed script code after exec is %r, expected %r (%s)' % (post.get('cs'), want_cs, 'a code separator was executed' if codesep_executed else 'no code separator was executed'),
                        observed=post.get('cs'), expected=want_cs)
    if exp_err:
        if ex['acc']:
            raise Violation(case, 'exec %r succeeded, the same operations in a script fail with %r' % (texts, exp_err), observed=[post['st'][-3:], post['alt'][-3:], post['vf']], expected=exp_err)
        if exp_err.startswith('exc:'):
            # number-format failures: exec reports them on stderr ('Error: exception thrown: ...') and returns failure; through the
            # harness only the failure itself is visible (an exception escaping eval is also a failure here; the crash side is C15's)
            pass
        elif ex['err'] != exp_err:
            raise Violation(case, 'exec %r reports %r, the same operations in a script fail with %r' % (texts, ex['err'] or ex['exc'], exp_err), observed=ex['err'] or ex['exc'], expected=exp_err)
        # the message the user actually sees (stderr of `exec`) names that error
        msg = ex.get('msg', '')
        if exp_err.startswith('exc:'):
            if 'rror' not in msg:
                raise Violation(case, 'exec %r failed with a number-format error but printed no error message' % texts, observed=msg)
        elif ('Error: ' + exp_err) not in msg:
            raise Violation(case, 'exec %r prints %r, the script error is %r' % (texts, msg.strip()[-120:], exp_err), observed=msg.strip()[-200:], expected='Error: ' + exp_err)
        # the state after the failure: the operations before the failing one are done, the failing one left nothing behind
        want = list(stt.snap())
        got = [post['st'], post['alt'], post['vf']]
        if want != got:
            raise Violation(case, 'state after the failing exec %r: the failing operation left partial effects behind (or earlier operations were undone)' % texts,
                            observed=[got[0][-4:], got[1][-4:], got[2]], expected=[want[0][-4:], want[1][-4:], want[2]])
        if post['ops'] != stt.nops and sv != R.TAPSCRIPT:
            raise Violation(case, 'operation count after the failing exec differs (%d vs %d): the failed operation was charged' % (post['ops'], stt.nops), observed=post['ops'], expected=stt.nops)
        return
    if not ex['acc']:
        raise Violation(case, 'exec %r failed (%s) but the same operations succeed as script operations on this state' % (texts, ex['err'] or ex['exc']), observed=ex['err'] or ex['exc'], expected='success')
    want = list(stt.snap())
    got = [post['st'], post['alt'], post['vf']]
    if want != got:
        raise Violation(case, 'state after exec %r differs from the reference executing the same operations' % texts, observed=[got[0][-4:], got[1][-4:], got[2]], expected=[want[0][-4:], want[1][-4:], want[2]])
    if post['ops'] != stt.nops and sv != R.TAPSCRIPT:
        raise Violation(case, 'operation count after exec differs (%d vs %d)' % (post['ops'], stt.nops), observed=post['ops'], expected=stt.nops)
    # continuing the plain session afterwards == reference continuing from the post-state
    if sess['kind'].startswith('plain') and not (flags & F['P2SH'] and R.__dict__.get('is_p2sh_shape', lambda s: len(s) == 23 and s[0] == 0xa9 and s[1] == 20 and s[22] == 0x87)(sess['kw']['script'])):
        script = sess['kw']['script']
        entries = R.decode(script)
        rest = []
        err = None
        try:
            cs = want_cs
            for e in entries:
                if e is not None and e[2] <= pre['pc']:
                    continue
                cs = R.step(stt, script, e, cs)
                rest.append(list(stt.snap()))
        except R.ScriptFail as f:
            err = R.ERR.get(f.code, f.code)
        except R.NumErr as f:
            err = 'exception thrown: ' + str(f)
        if err is None:
            if stt.vf:
                err = R.ERR['UNBALANCED_CONDITIONAL']
            else:
                rest.append(list(stt.snap()))
        if pre['done']:
            rest, err = [], None
        if r['rest'] != rest or (r['err'] or None) != err:
            raise Violation(case, 'continuing the session after exec differs from the reference continuing from the post-state (outcome %r vs %r)' % (r['err'] or 'ok', err or 'ok'),
                            observed=[r['rest'][-2:], r['err']], expected=[rest[-2:], err])


NOOP_PHRASES = [[('op', 'OP_NOP', 0x61)], [('int', 1), ('op', 'OP_DROP', 0x75)], [('op', '0', 0x00), ('op', 'OP_IF', 0x63), ('op', 'OP_CODESEPARATOR', 0xab), ('op', 'OP_ENDIF', 0x68)],
                [('op', '0', 0x00), ('op', 'OP_IF', 0x63), ('op', 'OP_RETURN', 0x6a), ('op', 'OP_ELSE', 0x67), ('op', 'OP_ENDIF', 0x68)],
                [('int', 7), ('op', 'OP_TOALTSTACK', 0x6b), ('op', 'OP_FROMALTSTACK', 0x6c), ('op', 'OP_DROP', 0x75)], [('op', 'OP_DEPTH', 0x74), ('op', 'OP_DROP', 0x75)],
                [('int', 1), ('op', 'OP_NOTIF', 0x64), ('op', 'OP_CODESEPARATOR', 0xab), ('op', 'OP_CHECKSIG', 0xac), ('op', 'OP_ENDIF', 0x68)],
                [('int', 1), ('int', 1), ('op', 'OP_EQUALVERIFY', 0x88)]]


@st.composite
def noop_cases(draw):
    sess = draw(st.one_of(SS.legacy_spend(), SS.legacy_spend(), SS.tapscript_spend(), SS.codesep_mock()))
    return (sess, draw(st.integers(0, 14)), draw(st.sampled_from(NOOP_PHRASES)))


def noop_json(case):
    sess, k, toks = case
    return dict(session={a: (b.hex() if isinstance(b, (bytes, bytearray)) else ([x.hex() for x in b] if isinstance(b, list) else b)) for a, b in sess['kw'].items()}, kind=sess['kind'], k=k, tokens=_tj(toks))


def noop_from_json(j):
    kw = {}
    for a, v in j['session'].items():
        if a in ('script', 'succ'):
            kw[a] = bytes.fromhex(v)
        elif a == 'stack':
            kw[a] = [bytes.fromhex(x) for x in v]
        else:
            kw[a] = v
    return (dict(kw=kw, kind=j['kind']), j['k'], [tuple([t[0], bytes.fromhex(t[1]) if t[0] == 'hex' else t[1]] + t[2:]) for t in j['tokens']])


def check_noop(case, ctx, h=None):
    """metamorphic: in a session with real (or mocked) signature checks, an `exec` whose operations leave stack, alt stack and condition stack
    as they were - including a code separator or a signature opcode inside a skipped branch - changes nothing that follows: the remaining
    steps and the outcome are those of the same session without the exec"""
    sess, k, toks = case
    h = h or harness()
    kw = dict(sess['kw'])
    kw['finish'] = 1
    kw['cmds'] = ','.join(['s'] * k)
    base = h.req(kvline('session', **kw))
    kw['cmds'] = ','.join(['s'] * k + ['e:' + '+'.join(A.render(t).encode().hex() for t in toks)])
    r = h.req(kvline('session', **kw))
    for g in (base, r):
        if 'timeout' in g:
            ctx.inconclusive += 1
            return
        if 'crash' in g or 'exit' in g:
            raise Violation(case, 'harness died: %r' % g, observed=g)
    if 'refused' in base or 'refused' in r:
        return
    if any(not e['acc'] for e in base['log'][:k]):
        ctx.count('prefix-ended-early')
        return
    ex = r['log'][k]
    pre = r['log'][k - 1]['d'] if k else r['init']
    ctx.case(repr(noop_json(case)), k > 0 and bool(base['rest']), noop_json(case), 'noop-exec:' + sess['kind'])
    if pre.get('vf') and '0' in pre['vf']:
        ctx.count('noop-exec-inside-skipped-branch')
        return      # inside a skipped branch the phrase's IF/ENDIF nest differently; the differential campaign covers that
    if any(t[0] == 'op' and t[2] == 0xab for t in toks) and pre.get('sv') == R.BASE and (sess['kw'].get('flags', SS.STD) & F['CONST_SCRIPTCODE']):
        # script rule: under CONST_SCRIPTCODE a legacy script must not contain OP_CODESEPARATOR, executed or not - exec reports exactly that
        ctx.count('noop-exec:codeseparator-rejected-in-legacy')
        if ex['acc'] or ex['err'] != R.ERR['OP_CODESEPARATOR']:
            raise Violation(case, 'exec of a code separator in a legacy session under CONST_SCRIPTCODE: %r' % (ex['err'] or 'accepted'), observed=ex, expected=R.ERR['OP_CODESEPARATOR'])
        return
    if R.ERR['OP_COUNT'] in (r.get('err'), base.get('err'), ex.get('err')):
        # the operations of the phrase are counted like script operations (C16's differential campaign checks the count): a session that runs into the
        # 201-operation limit does so earlier with the exec than without it - "neutral" is about the stacks, not about the budget
        ctx.count('noop-exec:operation-limit-reached')
        return
    if ex.get('err') == R.ERR['STACK_SIZE'] and len(pre.get('st', [])) + len(pre.get('alt', [])) >= 998:
        # the same for the 1000-item limit: a phrase that is neutral in the end still needs room for the one or two items it pushes on the way
        ctx.count('noop-exec:stack-limit-reached')
        return
    if not ex['acc']:
        if pre.get('done'):
            return
        raise Violation(case, 'a stack-neutral exec failed: %s' % (ex['err'] or ex['exc']), observed=ex)
    for f_ in ('st', 'alt', 'vf', 'pc', 'seq', 'cs', 'done'):
        if ex['d'].get(f_) != pre.get(f_):
            raise Violation(case, 'a stack-neutral exec changed %s: %r -> %r' % (f_, pre.get(f_), ex['d'].get(f_)), observed=ex['d'].get(f_), expected=pre.get(f_))
    if r['rest'] != base['rest'] or r['err'] != base['err']:
        raise Violation(case, 'after a stack-neutral exec the session continues differently: outcome %r, without the exec %r' % (r['err'] or 'ok', base['err'] or 'ok'),
                        observed=[r['rest'][-2:], r['err']], expected=[base['rest'][-2:], base['err']])


def w_noop(ctx, wid, seed, examples):
    core.hyp_campaign(ctx, 'exec-noop', noop_cases(), check_noop, examples, seed, noop_json)


def check_repl(case, ctx):
    """the command as the user types it: the same session in the real debugger on ptys - `step` k times, `exec <tokens>`, then `stack`, `altstack`, `vfexec` -
    shows the state the harness reaches with Instance::eval (the command's own argument splitting and printing sit in between)"""
    from .. import cli
    from . import c12
    sess, k, toks, pre = case
    if sess['kw'].get('sv', R.BASE) != R.BASE:
        return          # (the program runs a script given on its command line as a legacy script: other versions have no counterpart here)
    h = harness()
    kw = dict(sess['kw'])
    ecmd = lambda T: 'e:' + '+'.join(A.render(t).encode().hex() for t in T)
    kw['cmds'] = ','.join(['s'] * k + ([ecmd(pre)] if pre else []) + [ecmd(toks)])
    r = h.req(kvline('session', **kw))
    if 'log' not in r:
        return
    if any(not e['acc'] for e in r['log'][:k]):
        return
    post = r['log'][-1]['d']
    if post.get('tce'):
        return
    cmds = ['step'] * k + (['exec ' + ' '.join(A.render(t) for t in pre)] if pre else []) + ['exec ' + ' '.join(A.render(t) for t in toks), 'stack', 'altstack', 'vfexec']
    rp = cli.Repl(c12.cli_args(sess))
    blocks, err, status = rp.session(cmds, timeout=30)
    cj = case_json(case)
    ctx.case('repl' + repr(cj), True, dict(cj, layer='repl'), 'repl-exec:' + sess['kind'])
    if status.startswith('died'):
        raise Violation(case, 'btcdeb REPL died (%s) on exec %r' % (status, [A.render(t) for t in toks]), observed=err[-300:])
    if status != 'ok':
        ctx.inconclusive += 1
        return
    n = len(cmds)      # blocks[0] is the banner, blocks[i + 1] the output of command i
    st_main, st_alt, st_vf = (c12.parse_stack(blocks[n - 2]), c12.parse_stack(blocks[n - 1]), c12.parse_stack(blocks[n]))
    want_vf = ['01' if ch == '1' else '00' for ch in reversed(post['vf'])]
    if st_main != list(reversed(post['st'])) or st_alt != list(reversed(post['alt'])) or st_vf != want_vf:
        raise Violation(case, 'after `exec %s` the debugger shows stack %r / alt stack %r / conditions %r; the session state is %r / %r / %r (top first)' % (
            ' '.join(A.render(t) for t in toks), st_main[:4], st_alt[:4], st_vf, list(reversed(post['st']))[:4], list(reversed(post['alt']))[:4], want_vf),
                        observed=[st_main[:6], st_alt[:6], st_vf], expected=[list(reversed(post['st']))[:6], list(reversed(post['alt']))[:6], want_vf])


@st.composite
def repl_cases(draw):
    sess = draw(st.one_of(SS.plain('ctrl', short=True), SS.plain('altstack', short=True), SS.plain('mixed', short=True), SS.plain('arith', short=True)))
    # a script given on the command line is a legacy script: the harness session must be one too (it can be asked for any script version, the program cannot)
    sess = dict(sess, kw=dict(sess['kw'], sv=R.BASE))
    return (sess, draw(st.integers(0, 6)), draw(st.lists(token(), min_size=1, max_size=6)), None)


def w_repl(ctx, wid, seed, examples):
    core.hyp_campaign(ctx, 'exec-through-the-repl', repl_cases(), check_repl, examples, seed, case_json)


def w_limits(ctx, wid, seed, examples):
    core.hyp_campaign(ctx, 'exec-at-limits', limit_cases(), check_case, examples, seed, case_json)


def w_exec(ctx, wid, seed, examples):
    core.hyp_campaign(ctx, 'exec', cases(), check_case, examples, seed, case_json)


def run(tier, t0):
    n = 1500 if tier == 'quick' else 40000
    m = core.parallel(PID, [(w_exec, dict(examples=n)) for _ in range(core.WORKERS)] + [(w_noop, dict(examples=n // 3)) for _ in range(max(2, core.WORKERS // 4))] + [(w_limits, dict(examples=n // 4)) for _ in range(2)] + [(w_repl, dict(examples=max(25, n // 60))) for _ in range(2)])
    return core.finish(PID, tier, m, RULE, t0, min_nontrivial=1000 if tier == 'quick' else 50000,
                       assumptions=['reference interpreter (vf/ref/script.py) on the pre-state read from the harness dump', 'token grammar of Instance::eval: opcode names, non-zero canonical decimals, bare even-length hex; a hex token means the minimal-form push of those bytes'])


def replay(rec):
    try:
        if rec.get('campaign') == 'exec-through-the-repl':
            check_repl(case_from_json(rec['case']), core.Ctx(PID))
            return True, 'ok'
        if rec.get('campaign') == 'exec-noop':
            check_noop(noop_from_json(rec['case']), core.Ctx(PID))
            return True, 'ok'
        case = case_from_json(rec['case'])
        check_case(case, core.Ctx(PID))
    except Violation as v:
        return False, 'still failing: %s\n  expected %r\n  observed %r' % (v.why, v.expected, v.observed)
    return True, 'ok'
