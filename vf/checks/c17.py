"""C17 - re-enabled opcodes compute the functions their names denote.

Bounded-exhaustive: each of the 15 opcodes x all operand tuples from a boundary-rich value set V (V^2 for binary ops,
V x offsets^2 for SUBSTR) x {with -z, without} x {executed, unexecuted branch} x script versions x MINIMALDATA on/off.
Oracle: Python definitions on script values written here (no code shared with the tree). Where the name does not fix the
result (rounding of negative quotients, shifts of negatives / by negative or huge counts, operands wider than 4 bytes) any
script value or script error is accepted and only a crash is forbidden."""
import itertools

from .. import core
from ..core import Violation
from ..harness import Harness, kvline
from ..ref import script as R
from ..ref.script import F
from ..gen import scripts as G

PID = 'C17'
RULE = ('exhaustive table: opcode in the 15 re-enabled opcodes x operand tuples from the value set V (%d values; offsets set for SUBSTR/LEFT/RIGHT) x {-z, no -z} x {executed, unexecuted} x '
        '{BASE, WITNESS_V0, TAPSCRIPT} x {MINIMALDATA off, on}; all cases are boundary cases (non-trivial); distinct = the tuple itself')

NUMS = [0, 1, -1, 2, -2, 3, 5, -5, 7, 16, 17, 127, -127, 128, -128, 255, -255, 256, -256, 32767, -32768, 2 ** 31 - 1, -(2 ** 31 - 1)]
V = [R.num_enc(n) for n in NUMS] + [b'\x80', b'\x00', b'\x00\x00', b'\x01\x00', b'\xff\x00\x00', b'\x00\x80', b'abc', b'abcd', b'ab', b'\xff\xff', b'\x0f\xf0', b'\xaa\x55\xaa',
                                  b'\xff\xff\xff\xff\x7f', b'\x00\x00\x00\x00\x01', b'\x01\x02\x03\x04\x05\x06', bytes(range(16)), b'hello world']
OFFS = [R.num_enc(n) for n in (0, 1, 2, 3, 4, 5, 11, 12, -1, 16, 17, 255, 256)] + [b'\x80', b'\x01\x00', b'\x00\x00\x01',
                                                                                     b'\x02\x00\x00', b'\x03\x00\x00\x00', b'\x00\x00\x00\x80', b'\x01\x00\x80', b'\x00\x00\x01\x00', b'\x01\x00\x00\x00\x00']
STRS = [b'', b'a', b'abc', b'abcd', b'hello world', bytes(range(16)), b'\x00', b'\x80', b'\xff\xff']
OPS = {0x7e: 'CAT', 0x7f: 'SUBSTR', 0x80: 'LEFT', 0x81: 'RIGHT', 0x83: 'INVERT', 0x84: 'AND', 0x85: 'OR', 0x86: 'XOR', 0x8d: '2MUL', 0x8e: '2DIV',
       0x95: 'MUL', 0x96: 'DIV', 0x97: 'MOD', 0x98: 'LSHIFT', 0x99: 'RSHIFT'}
ANY = ('any',)
ERR = ('err',)


def numdec(b, minimal):
    """returns int, or 'err' when the operand must be refused, or 'any' when nothing is claimed"""
    if minimal and not R.num_minimal(b):
        return 'err'
    if len(b) > 4:
        return 'any'
    return R.num_dec(b, False, 4)


def tdiv(a, b):
    q = abs(a) // abs(b)
    return q if (a < 0) == (b < 0) else -q


def expect(op, args, minimal):
    name = OPS[op]
    if name == 'CAT':
        if len(args[0]) + len(args[1]) > 520:
            return ERR          # no stack element is longer than 520 bytes: a concatenation that would be is an invalid operand pair (as in BIP347 and in the original OP_CAT)
        return ('val', [args[0] + args[1]])
    if name in ('SUBSTR', 'LEFT', 'RIGHT'):
        s = args[0]
        ns = [numdec(x, minimal) for x in args[1:]]
        if 'err' in ns:
            return ERR
        if 'any' in ns:
            return ANY
        if name == 'SUBSTR':
            b, n = ns
            if b < 0 or n < 0 or b + n > len(s):
                return ERR
            return ('val', [s[b:b + n]])
        n = ns[0]
        if n < 0 or n > len(s):
            return ERR
        return ('val', [s[:n] if name == 'LEFT' else s[len(s) - n:]])
    if name == 'INVERT':
        return ('val', [bytes(c ^ 0xff for c in args[0])])
    if name in ('AND', 'OR', 'XOR'):
        a, b = args
        if len(a) != len(b):
            return ERR
        f = {'AND': lambda x, y: x & y, 'OR': lambda x, y: x | y, 'XOR': lambda x, y: x ^ y}[name]
        return ('val', [bytes(f(x, y) for x, y in zip(a, b))])
    ns = [numdec(x, minimal) for x in args]
    if 'err' in ns:
        return ERR
    if 'any' in ns:
        return ANY
    if name == '2MUL':
        return ('val', [R.num_enc(ns[0] * 2)])
    if name == '2DIV':
        n = ns[0]
        return ('val', sorted(set([R.num_enc(tdiv(n, 2)), R.num_enc(n // 2)])))
    a, b = ns
    if name == 'MUL':
        return ('val', [R.num_enc(a * b)])
    if name == 'DIV':
        if b == 0:
            return ERR
        return ('val', sorted(set([R.num_enc(tdiv(a, b)), R.num_enc(a // b)])))
    if name == 'MOD':
        if b == 0:
            return ERR
        return ('val', sorted(set([R.num_enc(a - b * tdiv(a, b)), R.num_enc(a % b)])))
    if name in ('LSHIFT', 'RSHIFT'):
        if b < 0 or b > 63:
            return ERR       # a shift by a negative count or by the whole width and more is an invalid operand
        if name == 'RSHIFT' and a < 0 and b <= 62:
            # whichever way a negative number is shifted right (towards minus infinity or towards zero), the result is not positive and no larger in magnitude
            return ('val', sorted(set([R.num_enc(a >> b), R.num_enc(-((-a) >> b))])))
        if b > 62 or a < 0:
            return ANY
        if name == 'LSHIFT':
            if a << b >= 2 ** 63:
                return ANY
            return ('val', [R.num_enc(a << b)])
        return ('val', [R.num_enc(a >> b)])
    raise AssertionError(name)


def operands(op):
    name = OPS[op]
    if name == 'SUBSTR':
        return [(s, b, n) for s in STRS for b in OFFS for n in OFFS]
    if name in ('LEFT', 'RIGHT'):
        return [(s, n) for s in STRS + V[:8] for n in OFFS]
    if name in ('INVERT', '2MUL', '2DIV'):
        return [(a,) for a in V]
    return [(a, b) for a in V for b in V]


def build(op, args, minimal, executed):
    body = b''.join(G.push(a, 0 if minimal else 1) for a in args) + bytes([op])
    if executed:
        return body
    return b'\x00\x63' + body + b'\x68\x51'


def check_tuple(h, ctx, op, args, z, executed, sv, minimal):
    flags = F['MINIMALDATA'] if minimal else 0
    script = build(op, args, minimal, executed)
    case = dict(op=OPS[op], args=[a.hex() for a in args], z=z, executed=executed, sv=sv, minimaldata=minimal, script=script.hex())
    got = h.req(kvline('run', script=script, flags=flags, sv=sv, z=z, mode='step', trace=0))
    ctx.case(repr((op, args, z, executed, sv, minimal)), True, case, OPS[op])
    ctx.count('%s:%s' % (OPS[op], 'z' if z else 'noz'))
    if 'timeout' in got:
        ctx.inconclusive += 1
        return
    if 'crash' in got or 'exit' in got:
        fid = None
        raise Violation(case, 'OP_%s %r crashes the interpreter (%s) instead of computing a value or failing with a script error' % (OPS[op], case['args'], got.get('signame', got)), observed=got)
    if 'refused' in got:
        raise Violation(case, 'script refused: %r' % got, observed=got)
    if not z:
        if got['ok'] or got['err'] != R.ERR['DISABLED_OPCODE']:
            raise Violation(case, 'without --allow-disabled-opcodes OP_%s must fail as a disabled opcode (%s branch)' % (OPS[op], 'executed' if executed else 'unexecuted'),
                            observed=[got['ok'], got['err']], expected=R.ERR['DISABLED_OPCODE'])
        return
    if not executed:
        if not got['ok'] or got['final']['st'] != ['01']:
            raise Violation(case, 'with -z an unexecuted OP_%s must have no effect' % OPS[op], observed=[got['ok'], got['err'], got['final']['st']], expected=['01'])
        return
    exp = expect(op, args, minimal)
    if exp == ANY:
        ctx.count('any-accepted')
        return
    if exp == ERR:
        if got['ok']:
            raise Violation(case, 'OP_%s on invalid operands %r must fail with a script error' % (OPS[op], case['args']), observed=got['final']['st'], expected='script error')
        return
    if not got['ok']:
        raise Violation(case, 'OP_%s %r failed (%s) but the function is defined' % (OPS[op], case['args'], got['err']), observed=got['err'], expected=[x.hex() for x in exp[1]])
    st = got['final']['st']
    if len(st) != 1 or bytes.fromhex(st[0]) not in exp[1]:
        raise Violation(case, 'OP_%s %r computes %r, expected %r' % (OPS[op], case['args'], st, [x.hex() for x in exp[1]]), observed=st, expected=[x.hex() for x in exp[1]])


def random_tuples():
    from hypothesis import strategies as st
    num = st.one_of(st.integers(-2 ** 31 + 1, 2 ** 31 - 1), st.integers(-300, 300), st.sampled_from(NUMS), st.sampled_from([46340, 46341, -46341, 65535, 65536, 2 ** 30, 2 ** 24 - 1, 2 ** 16 + 1]))
    sized = st.sampled_from([0, 1, 2, 3, 4, 5, 8, 75, 76, 255, 256, 259, 260, 261, 300, 519, 520]).flatmap(lambda n: st.binary(min_size=n, max_size=n))
    strs = st.one_of(st.binary(max_size=40), sized)

    def padded(draw, n):
        """the number, in its minimal encoding or (one time in four) padded to up to four bytes - the same value where minimal encoding is not required"""
        e = R.num_enc(n)
        k = draw(st.sampled_from([0, 0, 0, 0, 0, 0, 1, 2, 3]))
        if not k or len(e) + k > 4:
            return e
        if not e:
            return bytes(k)
        neg = e[-1] & 0x80
        return e[:-1] + bytes([e[-1] & 0x7f]) + bytes(k - 1) + bytes([neg])

    @st.composite
    def tup(draw):
        op = draw(st.sampled_from(sorted(OPS)))
        name = OPS[op]
        if name == 'CAT':
            a = draw(strs)
            b = draw(st.one_of(strs, st.sampled_from([519, 520, 521]).map(lambda t: bytes(min(520, max(0, t - len(a)))))))
            args = (a, b)
        elif name == 'SUBSTR':
            s_ = draw(strs)
            b_ = draw(st.one_of(st.integers(0, len(s_) + 1), st.integers(-1, 600)))
            n_ = draw(st.one_of(st.integers(0, len(s_) + 1), st.just(len(s_) - b_), st.just(len(s_) - b_ + 1), st.integers(-1, 600)))
            args = (s_, padded(draw, b_), padded(draw, n_))
        elif name in ('LEFT', 'RIGHT'):
            s_ = draw(strs)
            args = (s_, padded(draw, draw(st.one_of(st.integers(0, len(s_) + 1), st.just(len(s_)), st.integers(-1, 600)))))
        elif name == 'INVERT':
            args = (draw(strs),)
        elif name in ('AND', 'OR', 'XOR'):
            a = draw(strs)
            args = (a, draw(st.one_of(st.binary(min_size=len(a), max_size=len(a)), st.binary(min_size=len(a), max_size=len(a)), strs)))
        elif name in ('2MUL', '2DIV'):
            args = (R.num_enc(draw(num)),)
        elif name in ('LSHIFT', 'RSHIFT'):
            args = (R.num_enc(draw(st.one_of(st.integers(0, 2 ** 31 - 1), num))), R.num_enc(draw(st.one_of(st.integers(0, 62), st.integers(-2, 70)))))
        else:
            args = (R.num_enc(draw(num)), R.num_enc(draw(st.one_of(num, st.integers(-3, 3)))))
        return (op, args, draw(st.sampled_from([0, 1, 3])), draw(st.booleans()))
    return tup()


def check_random(c, ctx):
    op, args, sv, minimal = c
    if not hasattr(check_random, 'h'):
        check_random.h = Harness('plain')
    ctx.count('random:' + OPS[op])
    check_tuple(check_random.h, ctx, op, args, 1, True, sv, minimal)


def w_random(ctx, wid, seed, examples):
    core.hyp_campaign(ctx, 'random-operands', random_tuples(), check_random, examples, seed,
                      lambda c: dict(op=OPS[c[0]], args=[a.hex() for a in c[1]], z=1, executed=True, sv=c[2], minimaldata=c[3]))


def w_phases(ctx, wid, seed):
    """the 15 opcodes in a LATER script of a session (scriptPubKey after a scriptSig, P2SH redeem script) and through `exec`: without the option they fail as
    disabled opcodes there too (executed or not), with it they are computed"""
    h = Harness('plain')
    for op in sorted(OPS):
        a, b = R.num_enc(6), R.num_enc(3)
        args = (a,) if OPS[op] in ('INVERT', '2MUL', '2DIV') else ((b'abcdef', R.num_enc(1), R.num_enc(2)) if OPS[op] == 'SUBSTR' else ((b'abcdef', R.num_enc(2)) if OPS[op] in ('LEFT', 'RIGHT') else (a, b)))
        for executed in (True, False):
            body = build(op, args, False, executed) + (b'\x75\x51' if executed else b'')
            redeem = body
            for phase, kw in (('scriptPubKey', dict(script=b'\x51\x75', succ=body)),
                              ('redeem-script', dict(script=b'\xa9\x14' + R.ripemd(R.sha256(redeem)) + b'\x87', stack=[redeem], flags=F['P2SH']))):
                for z in (0, 1):
                    case = dict(op=OPS[op], phase=phase, executed=executed, z=z)
                    ctx.case(repr(case), True, case, 'later-script:' + phase)
                    req = dict(flags=0, sv=0, z=z, mode='step', trace=0)
                    req.update(kw)
                    g = h.req(kvline('run', **req))
                    if 'crash' in g or 'exit' in g or 'final' not in g:
                        ctx.violations.append(dict(campaign='phases', why='session died / refused: %r' % g, case=case, refails=3))
                        return
                    if z == 0 and (g['ok'] or g['err'] != R.ERR['DISABLED_OPCODE']):
                        ctx.violations.append(dict(campaign='phases', why='without --allow-disabled-opcodes OP_%s in the %s (%s branch) must fail as a disabled opcode, session says %r' % (
                            OPS[op], phase, 'executed' if executed else 'unexecuted', g['err'] or 'ok'), case=case, observed=[g['ok'], g['err']], expected=R.ERR['DISABLED_OPCODE'], refails=3))
                        return
                    if z == 1 and not g['ok']:
                        ctx.violations.append(dict(campaign='phases', why='with the option OP_%s in the %s fails: %r' % (OPS[op], phase, g['err']), case=case, observed=g['err'], refails=3))
                        return
        # exec
        for z in (0, 1):
            case = dict(op=OPS[op], phase='exec', z=z)
            ctx.case(repr(case), True, case, 'later-script:exec')
            toks = [x.hex() if len(x) > 1 or not (1 <= x[0] <= 16) else str(x[0]) for x in args] + ['OP_' + OPS[op]]
            g = h.req(kvline('session', script=b'\x61\x51', stack=[], flags=0, sv=0, z=z, cmds='s,e:' + '+'.join(t.encode().hex() for t in toks)))
            if 'log' not in g:
                ctx.violations.append(dict(campaign='phases', why='session died / refused: %r' % g, case=case, refails=3))
                return
            ex = g['log'][1]
            if z == 0 and (ex['acc'] or ex['err'] != R.ERR['DISABLED_OPCODE']):
                ctx.violations.append(dict(campaign='phases', why='without --allow-disabled-opcodes `exec ... OP_%s` must fail as a disabled opcode, got %r' % (OPS[op], ex['err'] or 'accepted'), case=case, observed=[ex['acc'], ex['err']], refails=3))
                return
            if z == 1 and not ex['acc']:
                ctx.violations.append(dict(campaign='phases', why='with the option `exec ... OP_%s` fails: %r' % (OPS[op], ex['err']), case=case, observed=ex['err'], refails=3))
                return


def w_exec_operands(ctx, wid, seed):
    """operands given to `exec` as one-byte hex tokens that are NOT small numbers (0x80 negative zero, 0x00, 0xff): the opcode works on the byte typed"""
    h = Harness('plain')
    for toks, want in ((['0x80', 'OP_INVERT'], '7f'), (['0x00', 'OP_INVERT'], 'ff'), (['0x01', '0x80', 'OP_CAT'], '0180'), (['0x80', '0x7f', 'OP_OR'], 'ff'), (['0x00', '0x80', 'OP_XOR'], '80'),
                       (['0xff', '0x00', 'OP_AND'], '00'), (['0x8000', 'OP_1', 'OP_LEFT'], '80'), (['0x0080', 'OP_1', 'OP_RIGHT'], '80')):
        case = dict(op=toks[-1][3:], phase='exec-operands', tokens=toks, z=1)
        ctx.case(repr(case), True, case, 'later-script:exec-operands')
        g = h.req(kvline('session', script=b'\x61\x51', stack=[], flags=0, sv=0, z=1, cmds='s,e:' + '+'.join(t.encode().hex() for t in toks)))
        if 'log' not in g:
            ctx.violations.append(dict(campaign='phases', why='session died / refused: %r' % g, case=case, refails=3))
            return
        ex = g['log'][1]
        top = ex['d']['st'][-1] if ex['d']['st'] else None
        if not ex['acc'] or top != want:
            ctx.violations.append(dict(campaign='phases', why='`exec %s` with the option leaves %r on top (%s), the opcode applied to the bytes typed gives %s' % (' '.join(toks), top, ex['err'] or 'accepted', want), case=case, observed=top, expected=want, refails=3))
            return


def w_cli(ctx, wid, seed):
    """the option as the user gives it: the real btcdeb, non-interactive (script on stdin and as argument), with -z, with --allow-disabled-opcodes and
    without the option, for each of the 15 opcodes on valid operands (executed and in an unexecuted branch)"""
    from .. import cli
    exe = cli.binpath('btcdeb')
    for op in sorted(OPS):
        name = OPS[op]
        a, b = R.num_enc(600), R.num_enc(7)
        args = (a,) if name in ('INVERT', '2MUL', '2DIV') else ((b'abcdef', R.num_enc(1), R.num_enc(2)) if name == 'SUBSTR' else ((b'abcdef', R.num_enc(2)) if name in ('LEFT', 'RIGHT') else
               ((b'ab', b'cd') if name in ('CAT', 'AND', 'OR', 'XOR') else ((a, R.num_enc(3)) if name in ('LSHIFT', 'RSHIFT') else (a, b)))))
        exp = expect(op, args, False)
        assert exp[0] == 'val' and len(exp[1]) >= 1
        for executed in (True, False):
            script = build(op, args, False, executed)
            for opt in (['-z'], ['--allow-disabled-opcodes'], []):
                for mode in ('stdin', 'argv'):
                    case = dict(op=name, executed=executed, option=opt, mode=mode, script=script.hex())
                    ctx.case(repr(case), True, case, 'cli:' + ('option' if opt else 'no-option'))
                    if mode == 'stdin':
                        r = cli.run(exe, opt + ['--modify-flags=-MINIMALDATA'], stdin=b'0x' + script.hex().encode() + b'\n', timeout=20)
                    else:
                        r = cli.run(exe, opt + ['--modify-flags=-MINIMALDATA', '0x' + script.hex()], stdin_tty=True, timeout=20)
                    if r.timed_out:
                        ctx.inconclusive += 1
                        continue
                    if r.abnormal:
                        ctx.violations.append(dict(campaign='cli', why='btcdeb %s terminated abnormally (%s) on OP_%s' % (' '.join(opt), r.abnormal, name), case=case, refails=3))
                        return
                    out = [l for l in r.out.decode(errors='replace').split('\n') if l.strip()]
                    if not opt:
                        if r.rc != 1 or b'disabled opcode' not in r.err:
                            ctx.violations.append(dict(campaign='cli', why='without the option a script with OP_%s (%s) must end with exit 1 and the disabled-opcode error: rc=%s stdout=%r stderr=%r' % (
                                name, 'executed' if executed else 'unexecuted', r.rc, out[-2:], r.err.decode(errors='replace')[-120:]), case=case, refails=3))
                            return
                        continue
                    want = [x.hex() for x in exp[1]] if executed else ['01']
                    if r.rc != 0 or len(out) != 1 or out[0] not in want:
                        ctx.violations.append(dict(campaign='cli', why='btcdeb %s (non-interactive, script by %s) on OP_%s (%s): expected exit 0 and the stack %r, got rc=%s stdout=%r stderr=%r' % (
                            opt[0], mode, name, 'executed' if executed else 'unexecuted', want, r.rc, out[-2:], r.err.decode(errors='replace')[-120:]), case=case, observed=[r.rc, out[-2:]], expected=want, refails=3))
                        return


def run_ops(h, script, minimal=False):
    g = h.req(kvline('run', script=script, flags=F['MINIMALDATA'] if minimal else 0, sv=0, z=1, mode='step', trace=0))
    if 'crash' in g or 'exit' in g:
        return ('crash', g)
    if not g.get('ok'):
        return ('err', g.get('err'))
    return ('val', g['final']['st'])


def w_relations(ctx, wid, seed):
    """consistency relations between the arithmetic opcodes, independent of the rounding convention:
    x OP_2DIV == x 2 OP_DIV, x OP_2MUL == x 2 OP_MUL, (a DIV b) * b + (a MOD b) == a, and |a MOD b| < |b| with the sign rule of one convention"""
    h = Harness('plain')
    nums = [n for n in NUMS] + [9, -9, 10, -10, 1000, -1000, 12345, -12345, 2 ** 30 + 1, -(2 ** 30 + 1)]
    P_ = lambda n: G.push(R.num_enc(n), 1)
    for x in nums:
        a = run_ops(h, P_(x) + b'\x8e')
        b = run_ops(h, P_(x) + P_(2) + b'\x96')
        ctx.case('rel2div%d' % x, True, dict(relation='x OP_2DIV == x 2 OP_DIV', x=x, got=[a, b]), 'relation:2DIV')
        if a != b:
            ctx.violations.append(dict(campaign='relations', why='OP_2DIV and "2 OP_DIV" disagree for %d: %r vs %r (halving must be the same division)' % (x, a, b), case=dict(relation='2DIV', x=x), observed=[a, b], refails=3))
            return
        a = run_ops(h, P_(x) + b'\x8d')
        b = run_ops(h, P_(x) + P_(2) + b'\x95')
        ctx.case('rel2mul%d' % x, True, dict(relation='x OP_2MUL == x 2 OP_MUL', x=x), 'relation:2MUL')
        if a != b:
            ctx.violations.append(dict(campaign='relations', why='OP_2MUL and "2 OP_MUL" disagree for %d: %r vs %r' % (x, a, b), case=dict(relation='2MUL', x=x), observed=[a, b], refails=3))
            return
    for a_ in nums:
        for b_ in nums:
            if b_ == 0 or abs(a_) >= 2 ** 31 or abs(b_) >= 2 ** 31:
                continue
            # (a / b) * b + (a % b) == a
            r = run_ops(h, P_(a_) + P_(b_) + b'\x96' + P_(b_) + b'\x95' + P_(a_) + P_(b_) + b'\x97' + b'\x93')
            ctx.case('reldivmod%d,%d' % (a_, b_), True, None, 'relation:DIVMOD')
            if abs((a_ // b_) * b_) < 2 ** 31 and r != ('val', [R.num_enc(a_).hex()]):
                ctx.violations.append(dict(campaign='relations', why='(a DIV b) * b + (a MOD b) != a for a=%d b=%d: %r' % (a_, b_, r), case=dict(relation='DIVMOD', a=a_, b=b_), observed=r, refails=3))
                return
    h.close()


def w_table(ctx, wid, seed, op, part, parts, tier):
    h = Harness('plain')
    tuples = operands(op)[part::parts]
    variants = list(itertools.product([1, 0], [True, False], G.SIGVERS, [False, True]))
    if tier == 'quick':
        # quick: full operand table with -z executed under BASE (both MINIMALDATA settings); the other variants on every 3rd tuple
        pass
    for i, args in enumerate(tuples):
        for (z, ex, sv, mini) in variants:
            if tier == 'quick' and not (z and ex and sv == R.BASE) and (i % 3):
                continue
            try:
                check_tuple(h, ctx, op, args, z, ex, sv, mini)
            except Violation as v:
                if not any(x['case']['op'] == v.case['op'] and x['why'][:30] == v.why[:30] for x in ctx.violations) and len(ctx.violations) < 4:
                    ctx.violations.append(dict(campaign='table', why=v.why, case=v.case, observed=v.observed, expected=v.expected, refails=3))
    h.close()


def run(tier, t0):
    tasks = []
    for op in OPS:
        n = len(operands(op))
        parts = max(1, min(8, n // 300))
        for p in range(parts):
            tasks.append((w_table, dict(op=op, part=p, parts=parts, tier=tier)))
    tasks.append((w_relations, dict()))
    tasks.append((w_phases, dict()))
    tasks.append((w_cli, dict()))
    tasks.append((w_exec_operands, dict()))
    tasks += [(w_random, dict(examples=8000 if tier == 'quick' else 100000)) for _ in range(8 if tier == 'quick' else core.WORKERS)]
    m = core.parallel(PID, tasks)
    m.exhaustive = (tier == 'thorough')
    return core.finish(PID, tier, m, RULE % len(V), t0, min_nontrivial=5000,
                       extra=dict(table_sizes={OPS[o]: len(operands(o)) for o in OPS}),
                       assumptions=['value semantics as defined in this module (expect()); rounding of negative quotients, shifts of negative values or by counts outside 0..62 and operands wider than 4 bytes are not fixed by the opcode names: any value or error, but no crash'])


def replay(rec):
    c = rec['case']
    if 'relation' in c:
        ctx = core.Ctx(PID)
        w_relations(ctx, 0, 0)
        return (not ctx.violations), str(ctx.violations[:1])
    if 'option' in c or 'phase' in c:
        ctx = core.Ctx(PID)
        (w_cli if 'option' in c else (w_exec_operands if c.get('phase') == 'exec-operands' else w_phases))(ctx, 0, 0)
        return (not ctx.violations), str(ctx.violations[:1])
    op = [o for o, n in OPS.items() if n == c['op']][0]
    h = Harness('plain')
    try:
        check_tuple(h, core.Ctx(PID), op, tuple(bytes.fromhex(a) for a in c['args']), c['z'], c['executed'], c['sv'], c['minimaldata'])
    except Violation as v:
        return False, 'still failing: %s\n  expected %r\n  observed %r' % (v.why, v.expected, v.observed)
    return True, 'ok'
