"""C18 - script-number encoding is a bijection on minimal encodings.

(1) native bounded-exhaustive enumerator (native/c18_enum.cpp, linked against the tree): all byte strings of length 0..3,
all 2^32 (thorough) or a stratified 2^24 (quick) of length 4, stratified 5-byte strings, all integers in [-2^31, 2^31]
(thorough; every 256th in quick) plus +-2^k+-d and a dense sample to +-2^63 - against an arithmetic definition written
in that file. (2) Hypothesis campaign over the debugger's conversions (integer literals, 0x literals, inline int()/hex(),
`tf int`, `tf hex`) against vf.ref.script's codec, which is cross-checked against the enumerator's definition through the tree."""
import json
import os
import subprocess

from hypothesis import strategies as st

from .. import build, core
from ..core import Violation
from ..harness import Harness, kvline
from ..ref import script as R
from ..ref.script import F
from ..gen import scripts as G

PID = 'C18'
RULE = ('enumerator: every byte string of length 0..3, length 4 exhaustively (thorough) or 2^24 stratified (quick), 5-byte strings stratified by top byte, integers as stated; '
        'non-trivial = string is non-minimal, or negative, or of maximal length (counted by the enumerator; enumeration makes them distinct by construction). '
        'conversions: Hypothesis-generated integers/byte strings through literal, inline and tf forms; non-trivial = value needs >= 2 bytes or is negative or non-minimal')


def enc_hex(n):
    return R.num_enc(n).hex()


ints = st.one_of(st.integers(-(2 ** 31), 2 ** 31), st.integers(-(2 ** 63) + 1, 2 ** 63 - 1), st.sampled_from([0, 1, -1, 16, 17, 127, 128, 255, 256, -127, -128, -255, -256, 32767, 32768, 2 ** 31 - 1, 2 ** 31, -(2 ** 31)]),
                 st.integers(0, 62).flatmap(lambda k: st.sampled_from([2 ** k - 1, 2 ** k, 2 ** k + 1, -(2 ** k) - 1, -(2 ** k), -(2 ** k) + 1])))
strings4 = st.binary(min_size=0, max_size=4)

_H = {}


def harness():
    if 'h' not in _H:
        _H['h'] = Harness('plain')
    return _H['h']


def tf(h, text):
    return h.req(kvline('tf', arg=text.encode().hex()))


def val(h, text):
    return h.req(kvline('val', expr=text.encode().hex()))


def check_int(n, ctx):
    h = harness()
    want = enc_hex(n)
    nontriv = n < 0 or abs(n) >= 128
    ctx.case('i%d' % n, nontriv, dict(kind='int', n=n, encoding=want), 'int')
    lit = str(n)
    # literal -> Value -> hex conversion
    r = val(h, lit)
    if r.get('type') != 'int' or r.get('int') != n:
        raise Violation(dict(kind='int', n=n), 'decimal literal %s is not read as the integer (got %r)' % (lit, r), observed=r)
    if r.get('hex_str') != want or r.get('data_value') != want:
        raise Violation(dict(kind='int', n=n), 'decimal literal %s converts to hex %r / data %r, codec says %s' % (lit, r.get('hex_str'), r.get('data_value'), want), observed=r, expected=want)
    # tf hex <n>
    t = tf(h, 'hex ' + lit)
    if t.get('out', '').strip() != want:
        raise Violation(dict(kind='int', n=n), '`tf hex %s` prints %r, codec says %s' % (lit, t.get('out'), want), observed=t, expected=want)
    # inline hex(n)
    r = val(h, 'hex(%s)' % lit)
    if bytes.fromhex(r.get('str', '')).decode() != want:
        raise Violation(dict(kind='int', n=n), 'inline hex(%s) gives %r, codec says %s' % (lit, r.get('str'), want), observed=r, expected=want)
    if len(want) <= 8 and want:
        # back: tf int 0x<enc>
        t = tf(h, 'int 0x' + want)
        if t.get('out', '').strip() != lit:
            raise Violation(dict(kind='int', n=n), '`tf int 0x%s` prints %r, expected %s' % (want, t.get('out'), lit), observed=t, expected=lit)


def check_str(b, ctx):
    h = harness()
    want = R.num_dec(b, False, 4)
    nontriv = (not R.num_minimal(b)) or want < 0 or len(b) == 4
    ctx.case('s' + b.hex(), nontriv, dict(kind='bytes', hex=b.hex(), value=want, minimal=R.num_minimal(b)), 'bytes')
    if not b:
        return
    t = tf(h, 'int 0x' + b.hex())
    if t.get('out', '').strip() != str(want):
        raise Violation(dict(kind='bytes', hex=b.hex()), '`tf int 0x%s` prints %r, Bitcoin assigns %d' % (b.hex(), t.get('out'), want), observed=t, expected=want)
    r = val(h, 'int(0x%s)' % b.hex())
    if r.get('type') != 'int' or r.get('int') != want:
        raise Violation(dict(kind='bytes', hex=b.hex()), 'inline int(0x%s) gives %r, Bitcoin assigns %d' % (b.hex(), r, want), observed=r, expected=want)
    # the same string as the operand of an arithmetic operation in a script, every script version, MINIMALDATA on and off: rejected exactly when
    # minimal encoding is required and the string is not minimal, otherwise computed from the value Bitcoin assigns
    for sv in (0, 1, 3):
        for fl in (0, R.F['MINIMALDATA']):
            g = h.req(kvline('run', script=b'\x8b', stack=[b], flags=fl, sv=sv, mode='step', trace=0, weight=1000000))   # (operand on the initial stack: push-form rules stay out of it)
            must_fail = bool(fl) and not R.num_minimal(b)
            if 'final' not in g:
                raise Violation(dict(kind='bytes', hex=b.hex()), 'script <%s> OP_1ADD could not be run: %r' % (b.hex(), g), observed=g)
            if must_fail != (not g['ok']):
                raise Violation(dict(kind='bytes', hex=b.hex()), 'operand %s of OP_1ADD under sigversion %d, MINIMALDATA %s: %s, but minimal encoding is %srequired and the string is %sminimal' % (
                    b.hex(), sv, 'on' if fl else 'off', 'accepted' if g['ok'] else 'rejected (%s)' % g['err'], '' if fl else 'not ', '' if R.num_minimal(b) else 'not '), observed=[g['ok'], g['err']])
            if g['ok'] and g['final']['st'] != [enc_hex(want + 1)]:
                raise Violation(dict(kind='bytes', hex=b.hex()), 'operand %s of OP_1ADD decodes to a value whose successor is %r, Bitcoin assigns %d' % (b.hex(), g['final']['st'], want), observed=g['final']['st'], expected=enc_hex(want + 1))
    # ... and in every operand position of multi-operand arithmetic (the verdict on one operand must not depend on the VALUES of the others:
    # OP_WITHIN with x below / above min, both operands of ADD / BOOLAND / MIN / NUMEQUAL / LESSTHAN)
    one, five, three, seven, ten = R.num_enc(1), R.num_enc(5), R.num_enc(3), R.num_enc(7), R.num_enc(10)
    probes = [(b'\x93', [b, one]), (b'\x93', [one, b]), (b'\x9a', [b, one]), (b'\x9a', [b'', b]), (b'\xa3', [b, one]), (b'\xa3', [one, b]), (b'\x9c', [one, b]), (b'\x9f', [b, one]),
              (b'\xa5', [b, b'', ten]), (b'\xa5', [five, b, ten]), (b'\xa5', [three, five, b]), (b'\xa5', [seven, five, b]), (b'\xa5', [five, five, b])]
    for fl in (0, R.F['MINIMALDATA']):
        must_fail = bool(fl) and not R.num_minimal(b)
        for sc_, st_ in probes:
            g = h.req(kvline('run', script=sc_, stack=st_, flags=fl, sv=0, mode='step', trace=0))
            if 'final' not in g:
                raise Violation(dict(kind='bytes', hex=b.hex()), 'probe could not be run: %r' % g, observed=g)
            if must_fail != (not g['ok']):
                raise Violation(dict(kind='bytes', hex=b.hex()), 'operand %s in position %d of opcode 0x%02x (other operands %s), MINIMALDATA %s: %s - minimal encoding is %srequired and the string is %sminimal' % (
                    b.hex(), st_.index(b), sc_[0], [x.hex() for x in st_ if x is not b], 'on' if fl else 'off', 'accepted' if g['ok'] else 'rejected (%s)' % g['err'], '' if fl else 'not ', '' if R.num_minimal(b) else 'not '),
                    observed=[g['ok'], g['err']])
    # harness-level codec probe incl. the minimal-encoding verdict
    s = h.req(kvline('scriptnum', bytes=b, max=4))
    if s.get('dec') != want or bool(s.get('min_ok')) != R.num_minimal(b):
        raise Violation(dict(kind='bytes', hex=b.hex()), 'codec probe disagrees: %r vs value %d minimal %r' % (s, want, R.num_minimal(b)), observed=s)


# tokens that may precede an integer literal in the same script: each with the push it assembles to
CONTEXT = [('OP_DUP', '76'), ('0x00', '0100'), ('9223372036854775807', '08ffffffffffffff7f'), ('-9223372036854775807', '08ffffffffffffffff'),
           ('11111111111111111111', '0a11111111111111111111'), ('99999999999999999999', '0a99999999999999999999'),
           ('18446744073709551616', '0a18446744073709551616'), ('1' * 64, '20' + '11' * 32), ('0x' + '9' * 40, '14' + '99' * 20), ('ffffffffffffffffffff', '0a' + 'ff' * 10)]


def push_of(n):
    if n == 0:
        return '00'
    if n == -1 or 1 <= n <= 16:
        return '%02x' % (0x50 + n)
    e = enc_hex(n)
    return '%02x' % (len(e) // 2) + e


def check_ctx(k, n, ctx):
    """an integer literal keeps its meaning whatever token was read before it in the same script (one bracketed script and separate arguments)"""
    h = harness()
    tok, enc = CONTEXT[k]
    ctx.case('c%d:%d' % (k, n), True, dict(kind='in-context', before=tok, n=n), 'in-context')
    want = enc + push_of(n)
    for argv in ([tok, str(n)], ['[%s %d]' % (tok, n)]):
        g = h.req(kvline('asm', args=','.join(a.encode().hex() for a in argv)))
        w = want if len(argv) == 2 else push_of_bytes(want)
        if g.get('hex') != w:
            raise Violation(dict(kind='in-context', before=tok, n=n), 'the integer literal %d after the token %s assembles to %r, the codec says %s' % (n, tok, g.get('hex', g), w), observed=g, expected=w)


def push_of_bytes(hx):
    n = len(hx) // 2
    return ('%02x' % n if n < 76 else '4c%02x' % n) + hx


def locktime_case(kind, v, field, minimal, neg_pad):
    """the five-byte numbers: the operand of OP_CHECKLOCKTIMEVERIFY / OP_CHECKSEQUENCEVERIFY compared with a transaction field next to it"""
    from . import c01
    b = R.num_enc(v)
    if neg_pad and len(b) < 5 and not minimal:
        b = b[:-1] + bytes([b[-1] & 0x7f]) + bytes(4 - len(b)) + bytes([b[-1] & 0x80]) if b else bytes(5)
    script = G.push(b, 1) + bytes([0xb1 if kind == 'cltv' else 0xb2, 0x75, 0x51])
    flags = F['CHECKLOCKTIMEVERIFY'] | F['CHECKSEQUENCEVERIFY'] | (F['MINIMALDATA'] if minimal else 0)
    tx = (2, field, 0xfffffffe) if kind == 'cltv' else (2, 0, field)
    return dict(script=script, stack=[], flags=flags, sv=R.BASE, tx=tx, cls='locktime-operand')


@st.composite
def locktime_cases(draw):
    kind = draw(st.sampled_from(['cltv', 'cltv', 'csv']))
    edge = st.sampled_from([0, 1, 499999999, 500000000, 500000001, 2 ** 31 - 2, 2 ** 31 - 1, 2 ** 31, 2 ** 31 + 1, 2 ** 32 - 2, 2 ** 32 - 1, 2 ** 32, 2 ** 32 + 1, 2 ** 39 - 1, 0x400000, 0x400001, 0x40ffff, 0xffff, 0x10000,
                            0x80000000 | 5, 0x80400005])
    v = draw(st.one_of(edge, st.integers(0, 2 ** 39 - 1), st.integers(2 ** 31 - 1, 2 ** 32), st.integers(-3, 3)))
    near = [x for x in (v - 1, v, v + 1, 2 ** 31 - 1, 2 ** 31, 2 ** 32 - 1, (v & 0xffff) | (v & 0x400000), ((v & 0xffff) - 1) | (v & 0x400000), v & 0xffffffff) if 0 <= x <= 0xffffffff]
    field = draw(st.one_of(st.sampled_from(near), st.sampled_from(near), st.integers(0, 0xffffffff)))
    return ('l', kind, v, field, draw(st.booleans()), draw(st.booleans()))


def check_any(case, ctx):
    if case[0] == 'l':
        from . import c01
        c = locktime_case(*case[1:])
        if len(R.decode(c['script'])[0][1]) == 5:
            ctx.count('locktime-operand:5-bytes')
        c01.check_case(c, ctx, harness())
        return
    if case[0] == 'i':
        check_int(case[1], ctx)
    elif case[0] == 'c':
        check_ctx(case[1], case[2], ctx)
    else:
        check_str(case[1], ctx)


cases = st.one_of(st.tuples(st.just('i'), ints), st.tuples(st.just('s'), strings4), st.tuples(st.just('c'), st.integers(0, len(CONTEXT) - 1), ints))


def w_cli(ctx, wid, seed, only=None):
    """the verdict as the user sees it: the real btcdeb, non-interactive, `[OP_1ADD]` on a byte string given as stack argument, with MINIMALDATA (default) and
    without: a refused string ends with exit 1 and an error report, an accepted one prints the encoding of value + 1"""
    from .. import cli
    import random
    rnd = random.Random(seed)
    exe = cli.binpath('btcdeb')
    fixed = [b'\x01', b'\x7f', b'\x81', b'\xff', b'\x00', b'\x80', b'\x01\x00', b'\x00\x80', b'\xff\x00', b'\xff\x80', b'\x80\x00', b'\x00\x01', b'\xff\xff\xff\x7f', b'\xff\xff\xff\xff',
             b'\x00\x00\x00\x80', b'\x01\x00\x00\x00', b'\x00\x00\x00\x80\x00', b'\x01\x02\x03\x04\x05', b'\x00\x00\x00\x00\x00']
    more = [bytes(rnd.randrange(256) for _ in range(rnd.choice([1, 2, 3, 4, 4, 5]))) for _ in range(12)] + [R.num_enc(rnd.randrange(-2 ** 31 + 1, 2 ** 31)) + bytes([rnd.choice([0, 0x80])]) for _ in range(6)]
    if not only:
        # integer literals inside a script are pushed by the ENGINE (OP_1NEGATE, OP_1..OP_16 for the small ones): what lands on the stack is the codec's encoding
        for n in list(range(-3, 19)) + [-16, -17, 127, 128, -128, 255, 256, 32767, -32768]:
            for script_, want_n in (('[%d]' % n, n), ('[%d OP_1ADD]' % n, n + 1), ('[%d OP_NEGATE]' % n, -n)):
                case = dict(kind='cli', bytes='', literal=script_)
                ctx.case('cli-lit:%s' % script_, True, case, 'cli-literal')
                r = cli.run(exe, [script_], stdin_tty=True, timeout=20)
                if r.timed_out:
                    ctx.inconclusive += 1
                    continue
                out = [l for l in r.out.decode(errors='replace').split('\n')]
                got = out[0].strip() if out else None
                want = R.num_enc(want_n).hex()
                if r.abnormal or r.rc != 0 or got != want:
                    ctx.violations.append(dict(campaign='cli', why='the script %s leaves %r on the stack (rc=%s), the encoding of %d is %r' % (script_, got, r.rc, want_n, want), case=case, observed=[r.rc, got], expected=want, refails=3))
                    return
    for b in (only or fixed + more):
        for minimal in (True, False):
            case = dict(kind='cli', bytes=b.hex(), minimaldata=minimal)
            ctx.case('cli:%s:%d' % (b.hex(), minimal), True, case, 'cli-verdict')
            accepted = len(b) <= 4 and (not minimal or R.num_minimal(b))
            r = cli.run(exe, ([] if minimal else ['--modify-flags=-MINIMALDATA']) + ['[OP_1ADD]', '0x' + b.hex()], stdin_tty=True, timeout=20)
            if r.timed_out:
                ctx.inconclusive += 1
                continue
            out = [l for l in r.out.decode(errors='replace').split('\n') if l.strip()]
            if r.abnormal:
                ctx.violations.append(dict(campaign='cli', why='btcdeb terminated abnormally (%s) on the operand %s' % (r.abnormal, b.hex()), case=case, refails=3))
                return
            if accepted:
                want = R.num_enc(R.num_dec(b, False, 4) + 1).hex()
                if r.rc != 0 or out != ([want] if want else ['']) and not (want == '' and out in ([], ['0x'])):
                    ctx.violations.append(dict(campaign='cli', why='[OP_1ADD] on 0x%s (MINIMALDATA %s): expected exit 0 and %r, got rc=%s stdout=%r stderr=%r' % (b.hex(), 'on' if minimal else 'off', want, r.rc, out[-2:], r.err.decode(errors='replace')[-100:]),
                                               case=case, observed=[r.rc, out[-2:]], expected=want, refails=3))
                    return
            elif r.rc != 1 or b'error' not in r.err.lower():
                ctx.violations.append(dict(campaign='cli', why='[OP_1ADD] on 0x%s (MINIMALDATA %s) must be refused (%s): expected exit 1 and an error report, got rc=%s stdout=%r stderr=%r' % (
                    b.hex(), 'on' if minimal else 'off', 'longer than 4 bytes' if len(b) > 4 else 'not minimally encoded', r.rc, out[-2:], r.err.decode(errors='replace')[-100:]), case=case, observed=[r.rc, out[-2:]], expected='exit 1', refails=3))
                return


def w_locktime(ctx, wid, seed, examples):
    core.hyp_campaign(ctx, 'locktime-operands', locktime_cases(), check_any, examples, seed, lambda c: dict(kind='l', value=list(c[1:])))


def w_conv(ctx, wid, seed, examples):
    core.hyp_campaign(ctx, 'conversions', cases, check_any, examples, seed, lambda c: dict(kind=c[0], value=c[1].hex() if c[0] == 's' else c[1], n=c[2] if c[0] == 'c' else None))


def run(tier, t0):
    exe = os.path.join(build.ensure('plain'), 'c18_enum')
    p = subprocess.Popen([exe, tier, str(core.seed()), str(core.WORKERS)], stdout=subprocess.PIPE)
    m = core.parallel(PID, [(w_conv, dict(examples=1500 if tier == 'quick' else 40000)) for _ in range(4 if tier == 'quick' else core.WORKERS)] +
                      [(w_locktime, dict(examples=1500 if tier == 'quick' else 40000)) for _ in range(2 if tier == 'quick' else 4)] + [(w_cli, dict())])
    out, _ = p.communicate()
    if p.returncode != 0:
        m.errors.append('enumerator exited with %d' % p.returncode)
        res = {}
    else:
        res = json.loads(out)
    extra = dict(enumerator=res)
    if res:
        m.evals += res['strings'] + res['ints']
        # distinct by construction; counted by the enumerator
        m.counters['enum:strings'] = res['strings']
        m.counters['enum:ints'] = res['ints']
        m.counters['enum:nonminimal'] = res['nonminimal']
        m.counters['enum:negative'] = res['negative']
        extra['enumerator_nontrivial'] = res['nontrivial']
        m.samples['enumerated'] = [dict(kind='bytes', hex='ff80', note='-127 written with a separate sign byte although 0xff has... (value -127: minimal form is ff; this 2-byte form is minimal only because 0xff needs the extra byte) - enumerated with all other 2-byte strings'),
                                   dict(kind='bytes', hex='0080', note='negative zero, non-minimal'), dict(kind='int', n=-2147483648, note='needs 5 bytes')]
        if res['failed']:
            m.violations.append(dict(campaign='enumerator', why=res['first_fail'], case=dict(key=res['first_key'], enumerator=True), refails=3))
        m.exhaustive = bool(res.get('exhaustive_len4'))
    m.extra_distinct = res.get('nontrivial', 0) if res else 0   # distinct by enumeration, counted by the enumerator
    return core.finish(PID, tier, m, RULE, t0, min_nontrivial=1000, extra=extra,
                       assumptions=['arithmetic definition of the codec in native/c18_enum.cpp and again in vf/ref/script.py (both independent of script/script.h)'])


def replay(rec):
    c = rec['case']
    if c.get('enumerator'):
        key = c['key']
        h = Harness('plain')
        if key.startswith('s'):
            b = bytes.fromhex(key[3:])
            s = h.req(kvline('scriptnum', bytes=b, max=max(4, len(b))))
            want = R.num_dec(b, False, 9)
            ok = s.get('dec') == want and bool(s.get('min_ok')) == R.num_minimal(b) and ((s.get('reenc') == b.hex()) == R.num_minimal(b))
            return ok, 'string %s: tree %r, reference value %d minimal %r' % (b.hex(), s, want, R.num_minimal(b))
        n = int(key[1:])
        n = -(n // 2) - 1 if n & 1 else n // 2
        s = h.req(kvline('scriptnum', bytes=b'', int=n))
        return s.get('enc') == enc_hex(n), 'int %d: tree encodes %r, reference %s' % (n, s.get('enc'), enc_hex(n))
    if c['kind'] == 'cli':
        ctx = core.Ctx(PID)
        w_cli(ctx, 0, 0, only=[bytes.fromhex(c['bytes'])] if c.get('bytes') else None)
        return (not ctx.violations), str(ctx.violations[:1])
    if c['kind'] == 'l':
        case = tuple(['l'] + list(c['value']))
    elif c['kind'] in ('c', 'in-context'):
        case = ('c', c['value'] if c['kind'] == 'c' else [t for t, _ in CONTEXT].index(c['before']), c['n'])
    elif c['kind'] in ('s', 'bytes'):
        case = ('s', bytes.fromhex(c['value'] if c['kind'] == 's' else c['hex']))
    else:
        case = ('i', c['value'] if c['kind'] == 'i' else c['n'])
    try:
        check_any(case, core.Ctx(PID))
    except Violation as v:
        return False, 'still failing: %s' % v.why
    return True, 'ok'
