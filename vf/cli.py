"""E4 - driver for the real binaries with any combination of pipes and pseudo-terminals.

run()  : non-interactive invocations (argv, stdin bytes or a pty, stdout pipe or pty); returns exit status / signal and output.
Repl   : writes a whole command list to btcdeb's REPL on two ptys, reads until len(commands)+1 prompts or a deadline, then
         kills the child (the REPL has no quit command). A deadline hit is 'inconclusive', never a violation."""
import os
import pty
import re
import select
import shutil
import signal
import subprocess
import tempfile
import time

from . import build

PROMPT = b'btcdeb> '
_ENV = None


def base_env(extra=None):
    e = {'PATH': '/usr/bin:/bin', 'TERM': 'dumb', 'INPUTRC': '/dev/null', 'HOME': '/nonexistent', 'LC_ALL': 'C',
         'ASAN_OPTIONS': 'detect_leaks=0:abort_on_error=1:alloc_dealloc_mismatch=1:symbolize=0', 'UBSAN_OPTIONS': 'halt_on_error=1:abort_on_error=1'}
    if extra:
        e.update(extra)
    return e


def binpath(name, variant='plain'):
    return os.path.join(build.ensure(variant, quiet=True), name)


class Result:
    def __init__(self, rc, out, err, timed_out):
        self.timed_out = timed_out
        self.rc = rc
        self.signal = -rc if rc is not None and rc < 0 else None
        self.out = out
        self.err = err

    @property
    def abnormal(self):
        """terminated by a signal, or a sanitizer / terminate / assert message"""
        if self.signal:
            return 'signal %s' % signal.Signals(self.signal).name
        blob = self.err + self.out
        for pat in (b'AddressSanitizer', b'runtime error:', b'terminate called', b'Assertion `', b'Assertion failed', b'core dumped', b'LeakSanitizer: bad', b'stack smashing'):
            if pat in blob:
                return pat.decode()
        return None

    def __repr__(self):
        return 'Result(rc=%r, out=%r, err=%r, timeout=%r)' % (self.rc, self.out[-300:], self.err[-300:], self.timed_out)


_scratch = None


def scratch_dir():
    global _scratch
    if _scratch is None or not os.path.isdir(_scratch):
        _scratch = tempfile.mkdtemp(prefix='btcdeb-vf-cwd.', dir=os.environ.get('VERIF_SCRATCH', '/var/tmp'))
        import atexit
        atexit.register(lambda d=_scratch: shutil.rmtree(d, ignore_errors=True))
    return _scratch


def run(exe, argv, stdin=b'', stdin_tty=False, stdout_tty=False, env=None, timeout=10.0):
    """stdin: bytes fed through a pipe (default) - or, when stdin_tty, through a pty (slave given to the child).
    stdout_tty: give the child a pty for stdout (output is still captured). stderr is always a pipe."""
    masters = []
    kw = {}
    if stdin_tty:
        m, s = pty.openpty()
        masters.append(m)
        kw['stdin'] = s
        in_m, in_s = m, s
    else:
        kw['stdin'] = subprocess.PIPE
    if stdout_tty:
        m2, s2 = pty.openpty()
        kw['stdout'] = s2
    else:
        kw['stdout'] = subprocess.PIPE
    p = subprocess.Popen([exe] + list(argv), stderr=subprocess.PIPE, env=env or base_env(), cwd=scratch_dir(), close_fds=True, **kw)
    if stdin_tty:
        os.close(in_s)
    if stdout_tty:
        os.close(s2)
    out = b''
    err = b''
    deadline = time.time() + timeout
    timed_out = False
    try:
        if not stdin_tty:
            try:
                p.stdin.write(stdin)
                p.stdin.close()
            except BrokenPipeError:
                pass
        elif stdin:
            os.write(in_m, stdin)
        fds = {p.stderr.fileno(): 'err'}
        if stdout_tty:
            fds[m2] = 'out'
        else:
            fds[p.stdout.fileno()] = 'out'
        while fds:
            left = deadline - time.time()
            if left <= 0:
                timed_out = True
                break
            rl, _, _ = select.select(list(fds), [], [], min(left, 0.5))
            for fd in rl:
                try:
                    chunk = os.read(fd, 65536)
                except OSError:
                    chunk = b''
                if not chunk:
                    del fds[fd]
                elif fds[fd] == 'out':
                    out += chunk
                else:
                    err += chunk
            if not rl and p.poll() is not None:
                # process gone; drain what is left
                for fd in list(fds):
                    try:
                        while True:
                            r2, _, _ = select.select([fd], [], [], 0)
                            if not r2:
                                break
                            chunk = os.read(fd, 65536)
                            if not chunk:
                                break
                            if fds[fd] == 'out':
                                out += chunk
                            else:
                                err += chunk
                    except OSError:
                        pass
                break
    finally:
        if p.poll() is None:
            if timed_out:
                p.kill()
            else:
                try:
                    p.wait(timeout=max(0.1, deadline - time.time()))
                except subprocess.TimeoutExpired:
                    timed_out = True
                    p.kill()
        rc = p.wait()
        for f in (p.stdout, p.stderr):
            if f:
                f.close()
        for m in masters:
            os.close(m)
        if stdout_tty:
            os.close(m2)
    if stdout_tty:
        out = out.replace(b'\r\n', b'\n')
    return Result(None if timed_out else rc, out, err, timed_out)


class Repl:
    """one interactive btcdeb session on two ptys"""

    def __init__(self, argv, variant='plain', env=None, exe='btcdeb'):
        self.exe = binpath(exe, variant)
        self.argv = list(argv)
        self.env = env or base_env()

    def session(self, commands, timeout=15.0):
        """returns (list of output blocks - one before the first prompt and one after each command, stderr, status)
        status: 'ok' | 'timeout' | 'died:<rc>'"""
        m, s = pty.openpty()
        # make the pty wide so that lines are not wrapped
        try:
            import fcntl
            import struct
            import termios
            fcntl.ioctl(s, termios.TIOCSWINSZ, struct.pack('HHHH', 200, 250, 0, 0))
            attrs = termios.tcgetattr(s)
            attrs[3] = attrs[3] & ~termios.ECHO
            termios.tcsetattr(s, termios.TCSANOW, attrs)
        except Exception:
            pass
        p = subprocess.Popen([self.exe] + self.argv, stdin=s, stdout=s, stderr=subprocess.PIPE, env=self.env, cwd=scratch_dir(), close_fds=True, preexec_fn=os.setsid)
        os.close(s)
        buf = b''
        err = b''
        want = len(commands) + 1
        deadline = time.time() + timeout
        status = 'ok'
        sent = 0
        try:
            efd = p.stderr.fileno()
            fds = [m, efd]
            while True:
                n = buf.count(PROMPT)
                # feed the next command only after its prompt appeared (keeps the transcript aligned)
                while sent < len(commands) and sent < n:
                    os.write(m, commands[sent].encode() + b'\n')
                    sent += 1
                if n >= want:
                    break
                left = deadline - time.time()
                if left <= 0:
                    status = 'timeout'
                    break
                rl, _, _ = select.select(fds, [], [], min(left, 0.5))
                for fd in rl:
                    try:
                        chunk = os.read(fd, 65536)
                    except OSError:
                        chunk = b''
                    if fd == m:
                        if not chunk:
                            fds.remove(m)
                        buf += chunk
                    else:
                        if not chunk:
                            fds.remove(efd)
                        err += chunk
                if p.poll() is not None and not rl:
                    status = 'died:%d' % p.returncode
                    break
                if m not in fds:
                    p.wait()
                    status = 'died:%d' % p.returncode
                    break
        finally:
            if p.poll() is None:
                try:
                    os.killpg(p.pid, signal.SIGKILL)
                except Exception:
                    p.kill()
            p.wait()
            try:
                while True:
                    r2, _, _ = select.select([p.stderr.fileno()], [], [], 0)
                    if not r2:
                        break
                    c = os.read(p.stderr.fileno(), 65536)
                    if not c:
                        break
                    err += c
            except Exception:
                pass
            p.stderr.close()
            os.close(m)
        text = buf.replace(b'\r\n', b'\n').replace(b'\r', b'')
        blocks = text.split(PROMPT)
        return [b.decode(errors='replace') for b in blocks], err.decode(errors='replace'), status


_ANSI = re.compile(r'\x1b\[[0-9;?]*[a-zA-Z]')


def strip_ansi(s):
    return _ANSI.sub('', s)
