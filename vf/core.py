"""Shared machinery: seeds, parallel Hypothesis campaigns, counters, known findings, replay files, evidence."""
import collections
import hashlib
import json
import multiprocessing
import os
import sys
import time
import traceback

VERIF = os.path.dirname(os.path.dirname(os.path.abspath(__file__)))
# mutation / seeded-change runs redirect their output so that committed evidence always comes from /repo itself
EVIDENCE = os.environ.get('VERIF_EVIDENCE_DIR') or os.path.join(VERIF, 'evidence')
REPLAYS = (os.environ.get('VERIF_EVIDENCE_DIR') + '/replays') if os.environ.get('VERIF_EVIDENCE_DIR') else os.path.join(VERIF, 'replays')
DEFAULT_SEED = 20260927
WORKERS = int(os.environ.get('VERIF_WORKERS', '16'))


def seed():
    try:
        return int(os.environ.get('VERIF_SEED', DEFAULT_SEED))
    except ValueError:
        return DEFAULT_SEED


def derive(seed_, *parts):
    h = hashlib.sha256(repr((seed_,) + parts).encode()).digest()
    return int.from_bytes(h[:8], 'big')


class Violation(Exception):
    def __init__(self, case, why, observed=None, expected=None):
        Exception.__init__(self, why)
        self.case = case
        self.why = why
        self.observed = observed
        self.expected = expected


class Inconclusive(Exception):
    pass


# ------------------------------------------------------------------ known findings
_KF = None


def known_findings():
    global _KF
    if _KF is None:
        p = os.path.join(VERIF, 'known_findings.json')
        _KF = {}
        if os.path.exists(p):
            for e in json.load(open(p))['findings']:
                _KF[e['id']] = e
    return _KF


def kf_active(fid):
    """True when finding `fid` is listed with status 'known' (fixed entries suppress nothing)."""
    e = known_findings().get(fid)
    return bool(e) and e.get('status') == 'known'


# ------------------------------------------------------------------ per-worker context
class Ctx:
    MAX_DISTINCT = 3_000_000

    def __init__(self, pid):
        self.pid = pid
        self.evals = 0
        self.counters = collections.Counter()
        self.nontrivial = set()
        self.samples = {}
        self.violations = []
        self.known = collections.Counter()
        self.known_examples = {}
        self.inconclusive = 0
        self.excluded = collections.Counter()
        self.notes = []

    def count(self, key, n=1):
        self.counters[key] += n

    def case(self, key, nontrivial, sample=None, cls=None):
        """register one evaluated case. key: bytes/str identifying the generated case."""
        self.evals += 1
        if nontrivial:
            if len(self.nontrivial) < self.MAX_DISTINCT:
                if isinstance(key, str):
                    key = key.encode()
                self.nontrivial.add(hashlib.blake2b(key, digest_size=8).digest())
            c = cls or 'default'
            lst = self.samples.setdefault(c, [])
            if len(lst) < 3 and sample is not None:
                lst.append(sample)

    def known_hit(self, fid, example=None):
        self.known[fid] += 1
        if example is not None and fid not in self.known_examples:
            self.known_examples[fid] = example

    def export(self):
        return dict(evals=self.evals, counters=dict(self.counters), nontrivial=self.nontrivial, samples=self.samples,
                    violations=self.violations, known=dict(self.known), known_examples=self.known_examples,
                    inconclusive=self.inconclusive, excluded=dict(self.excluded), notes=self.notes)


class Merged:
    def __init__(self, pid):
        self.pid = pid
        self.evals = 0
        self.counters = collections.Counter()
        self.nontrivial = set()
        self.samples = {}
        self.violations = []
        self.known = collections.Counter()
        self.known_examples = {}
        self.inconclusive = 0
        self.excluded = collections.Counter()
        self.notes = []
        self.exhaustive = False
        self.errors = []
        self.extra_distinct = 0   # distinct non-trivial cases counted by a native enumerator (distinct by construction)

    def add(self, e):
        self.evals += e['evals']
        self.counters.update(e['counters'])
        self.nontrivial |= e['nontrivial']
        for k, v in e['samples'].items():
            lst = self.samples.setdefault(k, [])
            for s in v:
                if len(lst) < 3:
                    lst.append(s)
        self.violations += e['violations']
        self.known.update(e['known'])
        for k, v in e['known_examples'].items():
            self.known_examples.setdefault(k, v)
        self.inconclusive += e['inconclusive']
        self.excluded.update(e['excluded'])
        self.notes += e['notes']


# ------------------------------------------------------------------ Hypothesis campaign (runs inside a worker)
def _no_history(obs):
    return {k: x for k, x in obs.items() if k != 'history'} if isinstance(obs, dict) and 'history' in obs else obs


def _history_violation(ctx, name, v):
    """A failure that does not repeat on its own case: when what was observed is the DEATH of the harness process, the cause can be state the tree's code
    carried over from earlier requests of that process (a leaked counter, a cache). The recorded request history of the dead process is replayed as one
    unit in a fresh process (three times, after shortening it from the front); a history that kills the process every time is a violation whose replay file
    is that history."""
    obs = v.observed if isinstance(v.observed, dict) else None
    if not obs or not obs.get('history'):
        return False
    from .harness import replay_history
    lines = list(obs['history'])
    variant = obs.get('variant', 'plain')
    if not replay_history(lines, variant):
        return False
    for _ in range(16):
        half = lines[len(lines) // 2:]
        if 1 <= len(half) < len(lines) and replay_history(half, variant):
            lines = half
        else:
            break
    fails = sum(1 for _ in range(3) if replay_history(lines, variant))
    if fails < 3:
        return False
    ctx.violations.append(dict(campaign=name + ':history', why='%s - the failure depends on the %d requests the same process served before (replayed as one history)' % (v.why, len(lines) - 1),
                               case=dict(harness_history=lines, variant=variant), observed=_no_history(obs), expected=v.expected, refails=fails))
    return True


def hyp_campaign(ctx, name, strategy, prop, examples, seed_, case_to_json=None, max_shrinks=400):
    """Run `prop(case, ctx)` over `examples` generated cases. prop raises Violation on a property failure.
    The first failure is shrunk by Hypothesis; the minimal failing case is re-executed three times and recorded."""
    import hypothesis
    from hypothesis import given, settings, HealthCheck, Phase

    state = {'last_fail': None, 'last_input': None}

    def wrapped(case):
        try:
            prop(case, ctx)
        except Violation as v:
            state['last_fail'] = v
            state['last_input'] = case
            raise

    test = settings(max_examples=examples, database=None, deadline=None, derandomize=False, report_multiple_bugs=False,
                    suppress_health_check=list(HealthCheck), phases=[Phase.generate, Phase.shrink],
                    verbosity=hypothesis.Verbosity.quiet)(hypothesis.seed(seed_)(given(strategy)(wrapped)))
    try:
        test()
    except Violation as v:
        v = state['last_fail'] or v
        inp = state['last_input']
        # replay the minimal generated input three times without the library
        fails = 0
        sub = Ctx(ctx.pid)
        for _ in range(3):
            try:
                prop(inp, sub)
            except Violation:
                fails += 1
            except Exception:
                fails += 1      # a check that cannot even re-run its own minimal case must not hide the failure
                ctx.notes.append('replay of the minimal case raised: ' + traceback.format_exc()[-300:])
        try:
            cj = case_to_json(inp) if case_to_json else v.case
        except Exception:
            cj = v.case
        rec = dict(campaign=name, why=v.why, case=cj, observed=_no_history(v.observed), expected=v.expected, refails=fails)
        if fails == 3:
            ctx.violations.append(rec)
        elif _history_violation(ctx, name, v):
            pass
        else:
            ctx.inconclusive += 1
            ctx.notes.append('flaky candidate in %s (%d/3 refails): %s | case %s | observed %s' % (name, fails, v.why, str(rec['case'])[:300], str(v.observed)[:300]))
    except hypothesis.errors.Flaky:
        # the failure did not repeat when Hypothesis re-ran the same case
        v = state['last_fail']
        if v is None or not _history_violation(ctx, name, v):
            ctx.inconclusive += 1
            ctx.notes.append('flaky candidate in %s (did not repeat under Hypothesis): %s' % (name, (v.why if v else '?')[:300]))
    except hypothesis.errors.Unsatisfiable:
        ctx.notes.append('campaign %s: unsatisfiable strategy' % name)


def _worker(args):
    func, pid, wid, seed_, kwargs = args
    ctx = Ctx(pid)
    try:
        func(ctx, wid, seed_, **kwargs)
    except Violation as v:
        # a directed (non-Hypothesis) worker let a Violation of a shared check function escape: that is a property failure, not an infrastructure error
        try:
            cj = jsonable(v.case)
        except Exception:
            cj = repr(v.case)[:2000]
        ctx.violations.append(dict(campaign=getattr(func, '__name__', 'worker'), why=v.why, case=cj if isinstance(cj, dict) else dict(case=cj), observed=_no_history(v.observed), expected=v.expected, refails=3))
    except Exception:
        ctx.notes.append('WORKER-ERROR ' + traceback.format_exc())
        e = ctx.export()
        e['error'] = traceback.format_exc()
        return e
    finally:
        # pool workers end without running atexit handlers: remove this task's scratch working directory here
        try:
            from . import cli
            if cli._scratch:
                import shutil
                shutil.rmtree(cli._scratch, ignore_errors=True)
                cli._scratch = None
        except Exception:
            pass
    return ctx.export()


def parallel(pid, tasks, workers=None):
    """tasks: list of (func, kwargs); func(ctx, wid, seed, **kwargs) is a top-level function. Returns Merged."""
    m = Merged(pid)
    s = seed()
    jobs = [(f, pid, i, derive(s, pid, f.__name__, i), kw) for i, (f, kw) in enumerate(tasks)]
    workers = workers or WORKERS
    if workers <= 1 or len(jobs) == 1:
        res = [_worker(j) for j in jobs]
    else:
        # watchdog: a hung generator or child must end as a loud infrastructure error, never as a silent pass or an endless run
        limit = float(os.environ.get('VERIF_CHECK_TIMEOUT', '14400'))
        with multiprocessing.get_context('fork').Pool(min(workers, len(jobs))) as pool:
            ar = pool.map_async(_worker, jobs, chunksize=1)
            try:
                res = ar.get(timeout=limit)
            except multiprocessing.TimeoutError:
                pool.terminate()
                m.errors.append('watchdog: workers did not finish within %.0f s' % limit)
                res = []
    for e in res:
        if 'error' in e:
            m.errors.append(e['error'])
        m.add(e)
    return m


# ------------------------------------------------------------------ reporting
def jsonable(x):
    if isinstance(x, (bytes, bytearray)):
        return bytes(x).hex()
    if isinstance(x, dict):
        return {str(k): jsonable(v) for k, v in x.items()}
    if isinstance(x, (list, tuple, set)):
        return [jsonable(v) for v in x]
    if isinstance(x, (int, float, str, bool)) or x is None:
        return x
    return repr(x)


def write_replay(pid, rec):
    d = os.path.join(REPLAYS, pid)
    os.makedirs(d, exist_ok=True)
    body = json.dumps(jsonable(dict(property=pid, **rec)), indent=1, sort_keys=True)
    name = hashlib.sha256(body.encode()).hexdigest()[:12] + '.json'
    p = os.path.join(d, name)
    with open(p, 'w') as f:
        f.write(body + '\n')
    return p


def finish(pid, tier, m, rule, t0, min_nontrivial=2, assumptions=None, extra=None, kf_descr=None):
    """print KNOWN-FINDING / VIOLATION lines, write evidence, return exit status"""
    wall = time.time() - t0
    status = 0
    kf = known_findings()
    for fid, n in sorted(m.known.items()):
        e = kf.get(fid, {})
        print('KNOWN-FINDING: property=%s %s [%s; %d hits this run]' % (pid, e.get('what', fid), fid, n))
    replay_paths = []
    for v in m.violations:
        p = write_replay(pid, v)
        replay_paths.append(p)
        print('VIOLATION property=%s replay=%s' % (pid, p))
        print('  why: %s' % v.get('why'))
        status = 1
    samples = []
    for k in sorted(m.samples):
        for s in m.samples[k]:
            samples.append({'class': k, 'case': jsonable(s)})
    samples = samples[:40]
    ndist = len(m.nontrivial) + m.extra_distinct
    cov = dict(evaluations=m.evals, distinct_nontrivial=ndist, rule=rule, samples=samples,
               exhaustive=bool(m.exhaustive), classes=jsonable(dict(m.counters)), inconclusive=m.inconclusive,
               known_finding_hits=dict(m.known), known_finding_examples=jsonable(m.known_examples),
               excluded_by_construction=dict(m.excluded), notes=m.notes[:20])
    if extra:
        cov.update(jsonable(extra))
    ev = dict(property_id=pid, tier=tier, seed=seed(), level='exploration', coverage=cov,
              assumptions=assumptions or [], wall_s=round(wall, 2), violations=len(m.violations), replays=replay_paths)
    if m.errors:
        print('INFRASTRUCTURE ERROR in %s:\n%s' % (pid, m.errors[0]), file=sys.stderr)
        ev['coverage']['infrastructure_errors'] = m.errors[:3]
        if status == 0:
            status = 2
    if status == 0 and ndist < min_nontrivial:
        print('INFRASTRUCTURE ERROR: %s decided only %d distinct non-trivial cases (< %d required)' % (pid, ndist, min_nontrivial), file=sys.stderr)
        status = 2
    os.makedirs(EVIDENCE, exist_ok=True)
    with open(os.path.join(EVIDENCE, pid + '.json'), 'w') as f:
        json.dump(ev, f, indent=1, sort_keys=True)
        f.write('\n')
    print('%s tier=%s seed=%d evaluations=%d distinct_nontrivial=%d known_hits=%d inconclusive=%d violations=%d wall=%.1fs' % (
        pid, tier, seed(), m.evals, ndist, sum(m.known.values()), m.inconclusive, len(m.violations), wall))
    return status
