"""Constructive boundary generator for the consensus resource limits (C10, and the 'long script' class of C01).

Each strategy returns a dict(script, stack, flags, sv, succ(optional), limit, way, at) where `at` in {-1, 0, +1} says whether
the case sits one below, exactly at, or one above the limit L."""
from hypothesis import strategies as st

from ..ref import script as R
from ..ref.script import F
from . import scripts as G

at_ = st.sampled_from([-1, 0, 0, 1, 1])
sv_ = st.sampled_from(G.SIGVERS)
base_flags = st.sampled_from([0, F['MINIMALDATA'], F['P2SH'] | F['MINIMALDATA'] | F['NULLDUMMY'], F['CLEANSTACK'] | F['MINIMALIF']])


def num(n):
    return G.push(R.num_enc(n), 0)


NEUTRAL = [bytes([0x61]), bytes([0x51, 0x75]), bytes([0x60, 0x75]), bytes([0x51, 0x76, 0x87, 0x75]), bytes([0x00, 0x8b, 0x75]), bytes([0x51, 0x51, 0x93, 0x75]),
           bytes([0xb0]), bytes([0x51, 0x6b, 0x6c, 0x75]), bytes([0x74, 0x75])]


def counted_ops(script):
    return sum(1 for e in R.decode(script) if e is not None and e[0] > 0x60)


@st.composite
def opcount(draw):
    """counted operations reaching 201 in executed / unexecuted branches, with multisig key counts, across script phases"""
    at = draw(at_)
    sv = draw(sv_)
    way = draw(st.sampled_from(['neutral-units', 'unexecuted-branch', 'multisig-keys', 'multisig-mid', 'multisig-mid', 'phases', 'mixed-units', 'interrupted', 'interrupted']))
    target = 201 + at
    stack = []
    succ = None
    flags = draw(base_flags) & ~F['CLEANSTACK']
    if way in ('neutral-units', 'mixed-units'):
        body = bytearray()
        units = [draw(st.sampled_from(NEUTRAL)) for _ in range(1 if way == 'neutral-units' else draw(st.integers(2, 4)))]
        i = 0
        while counted_ops(bytes(body)) + counted_ops(units[i % len(units)]) <= target - 0:
            body += units[i % len(units)]
            i += 1
            if counted_ops(bytes(body)) == target:
                break
        while counted_ops(bytes(body)) < target:
            body.append(0x61)
        script = bytes(body) + b'\x51'
    elif way == 'unexecuted-branch':
        inner = target - 2  # IF and ENDIF are counted too
        k = draw(st.integers(0, inner))
        script = b'\x00\x63' + b'\x61' * k + bytes([0x76] * (inner - k)) + b'\x68\x51'
    elif way == 'multisig-keys':
        nk = draw(st.integers(0, 20))
        # CHECKMULTISIG itself counts 1 and adds nk
        pre = target - 1 - nk
        keys = b''.join(G.push(bytes([2]) + bytes([i + 1]) * 32, 1) for i in range(nk))
        script = b'\x61' * pre + b'\x00' + b'\x00' + keys + num(nk) + b'\xae'
        if sv == R.TAPSCRIPT:
            sv = R.WITNESS_V0
    elif way == 'multisig-mid':
        # a CHECKMULTISIG that really tries keys (m >= 1, failing empty or garbage signature) in the MIDDLE of the script, possibly twice:
        # all n keys count, whatever the matching loop did, and counting continues afterwards
        nk = draw(st.integers(1, 20))
        two = draw(st.booleans()) and nk <= 8
        keys = b''.join(G.push(bytes([2]) + bytes([i + 1]) * 32, 1) for i in range(nk))
        ms = b'\x00' + b'\x00' + b'\x51' + keys + num(nk) + b'\xae' + b'\x75'       # dummy, empty sig, 1-of-nk, result dropped
        used = (1 + nk + 1) * (2 if two else 1)                                             # CHECKMULTISIG + keys + DROP
        pre = draw(st.integers(0, max(0, target - used)))
        post = target - used - pre
        if post < 0:
            pre, post = 0, 0
            script = b'\x61' * max(0, target - (1 + nk + 1)) + ms + b'\x51'
        else:
            script = b'\x61' * pre + ms + (ms if two else b'') + b'\x61' * post + b'\x51'
        flags &= ~F['NULLFAIL']
        if sv == R.TAPSCRIPT:
            sv = R.WITNESS_V0
    elif way == 'interrupted':
        # runs of counted operations separated by events that neither restart the count nor count twice: an executed code separator (it moves
        # the start of the signed script code, nothing else), a code separator in a skipped branch, executed / skipped conditionals, alt stack moves
        events = [draw(st.sampled_from([b'\xab', b'\xab', b'\xab\xab', b'\x00\x63\xab\x68', b'\x51\x63\xab\x68', b'\x51\x63\x67\x68', b'\x51\x6b\x6c\x75', b'\x51\x69']))
                  for _ in range(draw(st.integers(1, 3)))]
        left = target - sum(counted_ops(e) for e in events)
        cuts = sorted(draw(st.integers(0, left)) for _ in range(len(events)))
        body = bytearray()
        prev = 0
        for e, c in zip(events, cuts):
            body += b'\x61' * (c - prev) + e
            prev = c
        body += b'\x61' * (left - prev)
        script = bytes(body) + b'\x51'
    else:
        # phases: the count restarts for every script of a spend (scriptSig -> scriptPubKey [-> redeem script])
        a = draw(st.sampled_from([0, 100, 200, 201]))
        script = b'\x51' + b'\x61' * a
        succ = b'\x61' * target + b'\x51'
        sv = R.BASE
    return dict(script=script, stack=stack, flags=flags, sv=sv, succ=succ, limit='opcount', way=way, at=at)


@st.composite
def stacksize(draw):
    at = draw(at_)
    sv = draw(sv_)
    way = draw(st.sampled_from(['pushes', 'dup', '2dup', '3dup', 'altstack', 'initial+growth', 'initial-only', 'unexecuted-no-growth']))
    target = 1000 + at
    flags = draw(base_flags) & ~F['CLEANSTACK']
    stack = []
    if way == 'pushes':
        script = b'\x51' * target
    elif way == 'dup':
        script = b'\x51' + b'\x76' * (target - 1)
    elif way == '2dup':
        odd = target % 2
        script = b'\x51\x51' + (b'\x51' if odd else b'') + b'\x6e' * ((target - 2 - odd) // 2)
    elif way == '3dup':
        rem = (target - 3) % 3
        script = b'\x51\x51\x51' + b'\x51' * rem + b'\x6f' * ((target - 3 - rem) // 3)
    elif way == 'altstack':
        k = draw(st.integers(1, 400))
        script = b'\x51' * k + b'\x6b' * k + b'\x51' * (target - k)
    elif way == 'initial+growth':
        k = draw(st.sampled_from([1, 500, 990, 999]))
        stack = [b'\x01'] * k
        script = b'\x51' * (target - k) if target > k else b'\x61'
    elif way == 'initial-only':
        stack = [b'\x01'] * target
        script = b'\x61'
    else:
        script = b'\x51' * 999 + b'\x00\x63' + b'\x51' * 5 + b'\x68' + (b'\x51' * (1 + at) if at >= 0 else b'')
        if at < 0:
            script = b'\x51' * 998 + b'\x00\x63' + b'\x51' * 5 + b'\x68'
    return dict(script=script, stack=stack, flags=flags, sv=sv, succ=None, limit='stack', way=way, at=at)


@st.composite
def pushsize(draw):
    at = draw(at_)
    sv = draw(sv_)
    way = draw(st.sampled_from(['pushdata2', 'pushdata4', 'unexecuted', 'initial-stack', 'successor-executed', 'successor-unexecuted', 'successor-unexecuted']))
    n = 520 + at
    flags = draw(base_flags) & ~F['CLEANSTACK'] & ~F['MINIMALDATA']
    data = bytes([draw(st.integers(1, 255))]) * n
    stack = []
    if way == 'pushdata2':
        script = G.push(data, 3) + b'\x75\x51'
    elif way == 'pushdata4':
        script = G.push(data, 4) + b'\x75\x51'
    elif way == 'unexecuted':
        script = b'\x00\x63' + G.push(data, 3) + b'\x68\x51'
    elif way.startswith('successor'):
        # the scripts of a spend (scriptSig / scriptPubKey) are not pre-validated when the session is set up: the limit must be enforced
        # when the operation is decoded - also inside an unexecuted branch
        inner = G.push(data, draw(st.sampled_from([3, 4])))
        succ = (inner + b'\x75\x51') if way == 'successor-executed' else (b'\x00\x63' + inner + b'\x68\x51')
        if draw(st.booleans()):
            succ = b'\x61' * draw(st.integers(0, 5)) + succ
        return dict(script=b'\x51\x75' * draw(st.integers(0, 2)) + b'\x61', stack=[], flags=flags, sv=R.BASE, succ=succ, limit='push', way=way, at=at)
    else:
        stack = [data]
        script = b'\x82\x75\x75\x51'
    return dict(script=script, stack=stack, flags=flags, sv=sv, succ=None, limit='push', way=way, at=at)


@st.composite
def scriptsize(draw):
    at = draw(at_)
    sv = draw(sv_)
    way = draw(st.sampled_from(['pushes', 'nops-unexecuted', 'big-pushes', 'successor', 'p2sh-redeem']))
    n = 10000 + at
    flags = draw(base_flags) & ~F['CLEANSTACK'] & ~F['MINIMALDATA']
    if way == 'pushes':
        # 1-byte ops that stay within stack limits: pairs OP_1 OP_DROP
        body = b'\x51\x75' * ((n - 1) // 2)
        script = body + b'\x61' * (n - 1 - len(body)) + b'\x51'
        if sv != R.TAPSCRIPT:
            # keep the op count low enough that only the size limit matters: use pushes+drops = ~5000 counted ops -> would hit op count
            script = (G.push(bytes(75), 1) + b'\x75') * 0 + script
    elif way == 'nops-unexecuted':
        script = b'\x00\x63' + b'\x61' * (n - 4) + b'\x68\x51'
    else:
        # ('big-pushes' and 'successor')
        unit = G.push(bytes(520), 3) + b'\x75'     # 524 bytes, 1 counted op
        k = (n - 1) // len(unit)
        rest = n - 1 - k * len(unit)
        pad = b''
        while rest > 0:
            if rest >= 4:
                m = min(rest - 2, 75)
                pad += G.push(bytes(m), 1) + b'\x75'
                rest -= m + 2
            elif rest >= 2:
                pad += b'\x51\x75'
                rest -= 2
            else:
                pad += b'\x61'
                rest -= 1
        script = unit * k + pad + b'\x51'
    assert len(script) == n, (way, len(script), n)
    succ = None
    if way == 'successor':
        # the second script of a legacy spend (scriptPubKey) is size-limited as well
        succ = script
        script = b'\x51'
        sv = R.BASE
    stack = []
    if way == 'p2sh-redeem':
        # ... and so is the redeem script of a pay-to-script-hash shaped script (given as a plain stack argument it can be this large)
        stack = [script]
        script = b'\xa9\x14' + R.ripemd(R.sha256(script)) + b'\x87'
        flags |= F['P2SH']
        sv = R.BASE
    return dict(script=script, stack=stack, flags=flags, sv=sv, succ=succ, limit='scriptsize', way=way, at=at)


@st.composite
def multisig_keys(draw):
    at = draw(at_)
    sv = draw(st.sampled_from([R.BASE, R.WITNESS_V0]))
    nk = 20 + at
    way = draw(st.sampled_from(['zero-sigs', 'one-empty-sig', 'keys-from-stack']))
    flags = draw(base_flags) & ~F['CLEANSTACK']
    keys = [bytes([2]) + bytes([i + 1]) * 32 for i in range(nk)]
    stack = []
    if way == 'zero-sigs':
        script = b'\x00\x00' + b''.join(G.push(k, 1) for k in keys) + num(nk) + b'\xae'
    elif way == 'one-empty-sig':
        script = b'\x00\x00\x51' + b''.join(G.push(k, 1) for k in keys) + num(nk) + b'\xae\x91'
    else:
        stack = [b'', b''] + keys
        script = num(nk) + b'\xae'
    return dict(script=script, stack=stack, flags=flags, sv=sv, succ=None, limit='multisig-keys', way=way, at=at)


@st.composite
def numsize(draw):
    at = draw(at_)
    sv = draw(sv_)
    lock = draw(st.booleans())
    L = 5 if lock else 4
    n = L + at
    flags = (draw(base_flags) & ~F['CLEANSTACK']) | (F['CHECKLOCKTIMEVERIFY'] | F['CHECKSEQUENCEVERIFY'] if lock else 0)
    top = draw(st.sampled_from([0x01, 0x7f, 0x40]))
    val = bytes([draw(st.integers(1, 255)) for _ in range(max(0, n - 1))]) + (bytes([top]) if n > 0 else b'')
    if n >= 2 and draw(st.integers(0, 3)) == 0:
        # the limit is on the LENGTH of the operand as given: a small number padded to n bytes (valid where minimal encoding is not required) counts like any other
        k = draw(st.integers(1, n - 1))
        val = val[:k - 1] + bytes([val[k - 1] & 0x7f or 1]) + bytes(n - k - 1) + bytes([draw(st.sampled_from([0x00, 0x80]))])
        flags &= ~F['MINIMALDATA']
    if lock:
        op = draw(st.sampled_from([0xb1, 0xb2]))
        if op == 0xb2 and n >= 4:
            # make CSV a NOP via the disable flag (bit 31) so that only operand size decides
            v = bytearray(val)
            v[3] |= 0x80
            if n == 4:
                v += b'\x00'   # keep positive: this makes it 5 bytes, adjust below
                v = v[:4]
                v[3] &= 0x7f
            val = bytes(v)
        way = 'cltv' if op == 0xb1 else 'csv'
        script = G.push(val, 1) + bytes([op]) + b'\x75\x51'
    else:
        op = draw(st.sampled_from([0x8b, 0x8f, 0x93, 0x9f, 0xa5, 0x79]))
        way = 'op%02x' % op
        if op in (0x8b, 0x8f):
            script = G.push(val, 1) + bytes([op]) + b'\x75\x51'
        elif op in (0x93, 0x9f):
            script = b'\x51' + G.push(val, 1) + bytes([op]) + b'\x75\x51'
        elif op == 0xa5:
            script = b'\x51\x00' + G.push(val, 1) + bytes([op]) + b'\x75\x51'
        else:
            script = b'\x51' + G.push(val, 1) + bytes([op]) + b'\x51'
    return dict(script=script, stack=[], flags=flags, sv=sv, succ=None, limit='numsize-' + ('locktime' if lock else 'arith'), way=way, at=at)


all_limits = st.one_of(opcount(), opcount(), stacksize(), pushsize(), scriptsize(), multisig_keys(), numsize())
