"""E5 - Hypothesis strategies for script values, pushes, scripts (grammar-directed with an abstract stack typing),
flag sets and initial stacks. Every random choice is a Hypothesis draw, so shrinking and replay work."""
from hypothesis import strategies as st

from ..ref import script as R
from ..ref.script import F

# ---------------------------------------------------------------- values
BOUNDARY_VALUES = [
    b'', b'\x00', b'\x80', b'\x01', b'\x02', b'\x03', b'\x05', b'\x10', b'\x11', b'\x81', b'\x7f', b'\xff', b'\x00\x00', b'\x00\x80',
    b'\x80\x00', b'\xff\x00', b'\xff\x80', b'\x00\x01', b'\x01\x00', b'\x01\x80', b'\xff\x7f', b'\xff\xff', b'\x00\x00\x00\x80',
    b'\xff\xff\xff\x7f', b'\xff\xff\xff\xff', b'\x00\x00\x00\x80\x00', b'\x00\x00\x00\x80\x80', b'\xff\xff\xff\xff\x7f', b'\x01\x02\x03\x04\x05',
    b'\x00\x00\x00\x00\x00', b'abc', bytes(20), bytes(32), bytes(75), bytes(76), bytes(255), bytes(256), bytes(519), bytes(520),
    bytes(range(20)), bytes(range(32)), b'\x01\x00\x00\x00', b'\x00\x00\x01', b'\x00\x65\xcd\x1d', b'\xff\x64\xcd\x1d', b'\x00\x00\x40\x00',
]
SMALL_NUMS = [R.num_enc(n) for n in (0, 1, 2, 3, 4, 5, 7, 16, 17, -1, -2, 100, 127, 128, 255, 256, -127, -128, -255, -256, 32767, 32768, 2 ** 31 - 1, -(2 ** 31 - 1))]

values = st.one_of(
    st.sampled_from(SMALL_NUMS),
    st.sampled_from(BOUNDARY_VALUES),
    st.integers(-2 ** 31 - 2, 2 ** 31 + 2).map(R.num_enc),
    st.binary(min_size=0, max_size=8),
    st.binary(min_size=0, max_size=80),
)
small_values = st.one_of(st.sampled_from(SMALL_NUMS), st.sampled_from(BOUNDARY_VALUES[:30]), st.binary(min_size=0, max_size=5))


def push(data, how):
    """how: 0 = the minimal form (OP_0, OP_1..16, OP_1NEGATE, shortest direct push); 1 = direct push; 2/3/4 = PUSHDATA1/2/4"""
    n = len(data)
    if how == 0:
        if n == 0:
            return b'\x00'
        if n == 1 and 1 <= data[0] <= 16:
            return bytes([0x50 + data[0]])
        if n == 1 and data[0] == 0x81:
            return b'\x4f'
        return R.push_enc(data)
    if how == 1:
        return R.push_enc(data)
    if how == 2 and n <= 255:
        return bytes([0x4c, n]) + data
    if how == 3 and n <= 65535:
        return bytes([0x4d]) + n.to_bytes(2, 'little') + data
    return bytes([0x4e]) + n.to_bytes(4, 'little') + data


push_how = st.sampled_from([0, 0, 0, 0, 0, 0, 1, 1, 2, 3, 4])

# ---------------------------------------------------------------- opcode tables: (opcode, items needed, net stack delta)
OPS = {
    'nop': [(0x61, 0, 0)],
    'stack': [(0x6d, 2, -2), (0x6e, 2, 2), (0x6f, 3, 3), (0x70, 4, 2), (0x71, 6, 0), (0x72, 4, 0), (0x73, 1, 0), (0x74, 0, 1), (0x75, 1, -1), (0x76, 1, 1),
              (0x77, 2, -1), (0x78, 2, 1), (0x7b, 3, 0), (0x7c, 2, 0), (0x7d, 2, 1), (0x82, 1, 1)],
    'pickroll': [(0x79, 2, 0), (0x7a, 2, -1)],
    'alt': [(0x6b, 1, -1), (0x6c, 0, 1)],
    'eq': [(0x87, 2, -1), (0x88, 2, -2)],
    'arith1': [(0x8b, 1, 0), (0x8c, 1, 0), (0x8f, 1, 0), (0x90, 1, 0), (0x91, 1, 0), (0x92, 1, 0)],
    'arith2': [(0x93, 2, -1), (0x94, 2, -1), (0x9a, 2, -1), (0x9b, 2, -1), (0x9c, 2, -1), (0x9d, 2, -2), (0x9e, 2, -1), (0x9f, 2, -1), (0xa0, 2, -1),
               (0xa1, 2, -1), (0xa2, 2, -1), (0xa3, 2, -1), (0xa4, 2, -1)],
    'within': [(0xa5, 3, -2)],
    'hash': [(0xa6, 1, 0), (0xa7, 1, 0), (0xa8, 1, 0), (0xa9, 1, 0), (0xaa, 1, 0)],
    'verify': [(0x69, 1, -1)],
    'lock': [(0xb1, 1, 0), (0xb2, 1, 0)],
    'nops': [(0xb0, 0, 0), (0xb3, 0, 0), (0xb4, 0, 0), (0xb5, 0, 0), (0xb6, 0, 0), (0xb7, 0, 0), (0xb8, 0, 0), (0xb9, 0, 0)],
    'codesep': [(0xab, 0, 0)],
    'sig': [(0xac, 2, -1), (0xad, 2, -2), (0xae, 3, -2), (0xaf, 3, -3), (0xba, 3, -2)],
    'bad': [(0x50, 0, 0), (0x62, 0, 0), (0x65, 0, 0), (0x66, 0, 0), (0x89, 0, 0), (0x8a, 0, 0), (0x6a, 0, 0)],
    'disabled': [(o, 2, -1) for o in sorted(R.DISABLED)],
}
PROFILES = {
    # weights per category
    'mixed': dict(stack=20, pickroll=4, alt=6, eq=6, arith1=10, arith2=14, within=3, hash=5, verify=3, lock=2, nops=2, codesep=1, nop=2, sig=0, bad=1, disabled=1),
    'arith': dict(stack=8, pickroll=3, alt=2, eq=4, arith1=25, arith2=40, within=8, hash=1, verify=3, lock=2, nops=0, codesep=0, nop=1, sig=0, bad=0, disabled=1),
    'ctrl': dict(stack=14, pickroll=2, alt=8, eq=5, arith1=8, arith2=8, within=1, hash=2, verify=3, lock=1, nops=2, codesep=2, nop=3, sig=0, bad=2, disabled=2),
    'altstack': dict(stack=12, pickroll=2, alt=40, eq=3, arith1=5, arith2=5, within=1, hash=2, verify=1, lock=0, nops=0, codesep=0, nop=1, sig=0, bad=0, disabled=0),
    'sigops': dict(stack=14, pickroll=2, alt=2, eq=3, arith1=4, arith2=4, within=1, hash=4, verify=2, lock=1, nops=1, codesep=6, nop=1, sig=30, bad=0, disabled=0),
}


def _weighted(profile):
    cats = []
    for c, w in PROFILES[profile].items():
        cats += [c] * w
    return cats


_CATS = {p: _weighted(p) for p in PROFILES}

EXEC_FLAGS = ['P2SH', 'MINIMALDATA', 'MINIMALIF', 'DISCOURAGE_UPGRADABLE_NOPS', 'CHECKLOCKTIMEVERIFY', 'CHECKSEQUENCEVERIFY']
OTHER_FLAGS = ['NULLDUMMY', 'NULLFAIL', 'STRICTENC', 'DERSIG', 'LOW_S', 'CONST_SCRIPTCODE', 'WITNESS_PUBKEYTYPE', 'DISCOURAGE_UPGRADABLE_PUBKEYTYPE',
               'CLEANSTACK', 'WITNESS', 'TAPROOT', 'SIGPUSHONLY', 'DISCOURAGE_OP_SUCCESS', 'DISCOURAGE_UPGRADABLE_WITNESS_PROGRAM', 'DISCOURAGE_UPGRADABLE_TAPROOT_VERSION']


@st.composite
def flagsets(draw):
    f = 0
    bits = draw(st.integers(0, (1 << len(EXEC_FLAGS)) - 1))
    for i, n in enumerate(EXEC_FLAGS):
        if bits >> i & 1:
            f |= F[n]
    bits = draw(st.one_of(st.just(0), st.integers(0, (1 << len(OTHER_FLAGS)) - 1)))
    for i, n in enumerate(OTHER_FLAGS):
        if bits >> i & 1:
            f |= F[n]
    return f


def flag_names(f):
    return [n for n in R.FLAGS if f & F[n]]


@st.composite
def grammar_script(draw, profile=None, max_ops=40, with_sig=False, sv=None):
    """returns (script bytes, initial stack). Keeps an abstract depth so that with probability ~0.85 the chosen op's
    precondition holds; closes open IFs with high probability."""
    profile = profile or draw(st.sampled_from(['mixed', 'mixed', 'arith', 'ctrl', 'altstack'] + (['sigops'] if with_sig else [])))
    cats = _CATS[profile]
    nstack = draw(st.sampled_from([0, 0, 1, 2, 3, 4, 6, 8]))
    stack = [draw(small_values if profile in ('arith', 'ctrl') else values) for _ in range(nstack)]
    n = draw(st.integers(1, max_ops))
    depth = nstack
    alt = 0
    ifd = 0
    out = bytearray()
    ifprob = 18 if profile == 'ctrl' else 6
    for i in range(n):
        r = draw(st.integers(0, 99))
        if r < 30 or depth == 0 and r < 60:
            v = draw(small_values if r % 3 else values)
            out += push(v, draw(push_how))
            depth += 1
            continue
        if r < 30 + ifprob:
            k = draw(st.integers(0, 9))
            if k < 4 and depth > 0 and ifd < 8:
                out.append(0x63 if k % 2 else 0x64)
                ifd += 1
                depth -= 1
            elif k < 6 and ifd > 0:
                out.append(0x67)
            elif ifd > 0:
                out.append(0x68)
                ifd -= 1
            else:
                out.append(0x61)
            continue
        cat = cats[draw(st.integers(0, len(cats) - 1))]
        lst = OPS[cat]
        op, need, delta = lst[draw(st.integers(0, len(lst) - 1))]
        sloppy = draw(st.integers(0, 99)) < 12
        if cat == 'alt':
            if op == 0x6c and alt == 0 and not sloppy:
                op, need, delta = 0x6b, 1, -1
            if op == 0x6b and depth == 0 and not sloppy:
                out += push(draw(small_values), 0)
                depth += 1
        if depth < need and not sloppy:
            for _ in range(need - depth):
                out += push(draw(small_values), 0)
            depth = need
        if cat == 'pickroll' and not sloppy:
            # give a usually-valid index
            # after the index is popped `depth` items remain: valid indices are 0..depth-1; draw up to depth (first invalid) with extra weight on the edges
            idx = draw(st.one_of(st.integers(0, depth), st.sampled_from([0, max(0, depth - 1), depth])))
            out += push(R.num_enc(idx), 0)
        if cat == 'lock' and not sloppy:
            out += push(draw(st.sampled_from([R.num_enc(x) for x in (0, 1, 10, 499999999, 500000000, 500000001, 0x400000, 0x400001, 0xffff, 2 ** 31, 2 ** 32 - 1, -1)])), 0)
        out.append(op)
        depth = max(0, depth + delta)
        if op == 0x6b:
            alt += 1
        if op == 0x6c:
            alt = max(0, alt - 1)
    # close open IFs most of the time
    while ifd > 0 and draw(st.integers(0, 9)) < 9:
        out.append(0x68)
        ifd -= 1
    return bytes(out), stack


@st.composite
def raw_script(draw, max_len=64):
    return draw(st.binary(min_size=0, max_size=max_len)), [draw(values) for _ in range(draw(st.integers(0, 3)))]


SIGVERS = [R.BASE, R.WITNESS_V0, R.TAPSCRIPT]
