"""Session strategies shared by C04 / C12 / C16: a session is dict(kind, kw) where kw are the harness `session` parameters
(script/stack/flags/sv/succ/mock, or spendtx/spendtxin for a real spend)."""
from hypothesis import strategies as st

from ..ref import script as R
from ..ref.script import F
from . import scripts as G, limits as L

MOCK_SIG = bytes.fromhex('aa')
MOCK_KEY = bytes.fromhex('bb')
MOCK_SIG2 = bytes.fromhex('3006020101020101') + b'\x01'
MOCK_KEY2 = bytes([2]) + bytes(range(1, 33))
STD = sum(F[n] for n in R.FLAGS if n != 'SIGPUSHONLY')
flag_choice = st.sampled_from([0, STD, STD & ~F['CLEANSTACK'], F['P2SH'] | F['MINIMALDATA'], F['P2SH'], STD & ~F['MINIMALIF'] & ~F['NULLFAIL']])


def h160(b):
    return R.ripemd(R.sha256(b))


@st.composite
def plain(draw, profile, short=False):
    script, stack = draw(G.grammar_script(profile=profile, max_ops=6 if short else 30))
    sv = draw(st.sampled_from(G.SIGVERS))
    return dict(kind='plain-' + profile, kw=dict(script=script, stack=stack, flags=draw(flag_choice), sv=sv))


@st.composite
def codesep_mock(draw, short=False):
    """OP_CODESEPARATOR before mocked signature checks (every sig version); state: pbegincodehash / code-separator position"""
    sv = draw(st.sampled_from(G.SIGVERS))
    n = draw(st.integers(1, 2 if short else 5))
    body = bytearray()
    for i in range(n):
        k = draw(st.integers(0, 5))
        if k == 0:
            body += b'\xab'
        elif k == 1:
            body += b'\x51\x63\xab\x68'
        elif k == 2:
            body += b'\x00\x63\xab\x68'
        sig, key = (MOCK_SIG, MOCK_KEY) if draw(st.booleans()) else (MOCK_SIG2, MOCK_KEY2)
        body += G.push(sig, 1) + G.push(key, 1) + (b'\xad' if draw(st.booleans()) else b'\xac\x75')
        if draw(st.integers(0, 3)) == 0:
            body += b'\x51\x6b\x6c\x75'
    body += b'\x51'
    flags = draw(st.sampled_from([0, F['P2SH'], F['NULLFAIL']]))
    return dict(kind='codesep-mock', kw=dict(script=bytes(body), stack=[], flags=flags, sv=sv, mock='%s:%s,%s:%s' % (MOCK_SIG.hex(), MOCK_KEY.hex(), MOCK_SIG2.hex(), MOCK_KEY2.hex())))


@st.composite
def opcount(draw):
    c = draw(L.opcount())
    while c['at'] > 0:
        c = draw(L.opcount())
    kw = dict(script=c['script'], stack=c['stack'], flags=c['flags'], sv=c['sv'])
    if c.get('succ'):
        kw['succ'] = c['succ']
    return dict(kind='opcount-' + c['way'], kw=kw)


@st.composite
def multi_script(draw, short=False):
    """legacy session: scriptSig -> scriptPubKey [-> P2SH redeem script]"""
    p2sh = draw(st.booleans())
    flags = draw(st.sampled_from([F['P2SH'], F['P2SH'] | F['MINIMALDATA'], STD & ~F['CLEANSTACK'], 0]))
    nargs = draw(st.integers(0, 3))
    args = [draw(G.small_values) for _ in range(nargs)]
    sig = b''.join(G.push(a, 0) for a in args)
    if p2sh:
        redeem, _ = draw(G.grammar_script(profile=draw(st.sampled_from(['ctrl', 'altstack', 'arith'])), max_ops=5 if short else 14))
        redeem = redeem[:500]
        scriptsig = sig + G.push(redeem, 0 if len(redeem) > 1 else 1)
        spk = b'\xa9\x14' + h160(redeem) + b'\x87'
        if draw(st.integers(0, 9)) == 0:
            spk = b'\xa9\x14' + bytes(20) + b'\x87'   # wrong hash: the session ends in EVAL_FALSE at the switch
    else:
        scriptsig = sig + (b'\x51' if not args else b'')
        spk, _ = draw(G.grammar_script(profile=draw(st.sampled_from(['ctrl', 'altstack', 'arith'])), max_ops=5 if short else 14))
    return dict(kind='multi-script-p2sh' if p2sh else 'multi-script', kw=dict(script=scriptsig, stack=[], flags=flags, sv=R.BASE, succ=spk))


@st.composite
def tapscript_spend(draw):
    """a real, reference-signed P2TR script-path spend (commitment phase, signature budget, real Schnorr checks)"""
    from . import spends
    rnd = draw(st.randoms(use_true_random=False))
    c = spends.build(rnd, 'p2tr-script', ninputs=1)
    return dict(kind='tapscript-spend', kw=dict(spendtx=c['tx'].ser().hex(), spendtxin=c['fund'].ser().hex(), flags=STD))


NO_P2SH = STD & ~F['P2SH'] & ~F['WITNESS'] & ~F['CLEANSTACK'] & ~F['TAPROOT']      # consistent set without the P2SH rule
spend_flags = st.sampled_from([STD, STD, STD & ~F['CLEANSTACK'], STD & ~F['NULLFAIL'] & ~F['LOW_S'], NO_P2SH])


@st.composite
def legacy_spend(draw):
    from . import spends
    rnd = draw(st.randoms(use_true_random=False))
    typ = draw(st.sampled_from(['p2pkh', 'p2sh-multisig', 'p2sh-script', 'p2wsh', 'p2wsh-script', 'p2sh-p2wpkh', 'p2sh-p2wsh', 'p2wpkh', 'p2tr-key', 'multisig', 'p2pk', 'p2wsh-codesep', 'p2wsh-codesep', 'bare-script', 'bare-script']))
    c = spends.build(rnd, typ, ninputs=1 if typ == 'p2tr-key' else None)
    flags = draw(spend_flags)
    if typ not in ('p2pkh', 'p2sh-multisig', 'p2sh-script', 'multisig', 'p2pk', 'bare-script') and flags == NO_P2SH:
        flags = STD
    return dict(kind='spend-' + typ + ('-noP2SH' if flags == NO_P2SH else ''), kw=dict(spendtx=c['tx'].ser().hex(), spendtxin=c['fund'].ser().hex(), flags=flags))


@st.composite
def deep_roll(draw):
    """a stack of 60..300 items and operations that reach FAR below its top (OP_ROLL / OP_PICK with large indices, bulk drops, moves to the alt stack):
    whatever a step saves for a later rewind must cover the whole stack, not its upper part"""
    n = draw(st.sampled_from([60, 64, 65, 66, 70, 100, 128, 129, 200, 256, 300]))
    stack = [R.num_enc(1000 + i) for i in range(n)]
    body = bytearray()
    for _ in range(draw(st.integers(2, 7))):
        k = draw(st.integers(0, 6))
        if k < 3:
            idx = draw(st.sampled_from([n - 1, n - 2, n // 2, 62, 63, 64, 65, 40, 5, 0]))
            idx = max(0, min(idx, n - 4))
            body += G.push(R.num_enc(idx), 0) + bytes([draw(st.sampled_from([0x7a, 0x7a, 0x79]))])
        elif k == 3:
            body += b'\x6d' * draw(st.sampled_from([1, 2, 10]))
        elif k == 4:
            body += b'\x6b' * draw(st.sampled_from([1, 3])) + b'\x6c'
        elif k == 5:
            body += bytes([draw(st.sampled_from([0x7b, 0x7c, 0x7d, 0x71, 0x72, 0x70]))])
        else:
            body += b'\x74\x8c\x7a'          # DEPTH 1SUB ROLL: the bottom item comes to the top
    body += b'\x51'
    return dict(kind='plain-deep-roll', kw=dict(script=bytes(body), stack=stack, flags=draw(flag_choice), sv=draw(st.sampled_from(G.SIGVERS))))


def sessions(short=False):
    if short:
        return st.one_of(plain('ctrl', True), plain('ctrl', True), plain('altstack', True), codesep_mock(True), multi_script(True), plain('mixed', True))
    return st.one_of(plain('ctrl'), plain('ctrl'), plain('altstack'), plain('mixed'), codesep_mock(), codesep_mock(), opcount(), multi_script(), multi_script(),
                     tapscript_spend(), legacy_spend(), deep_roll())
