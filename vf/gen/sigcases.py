"""Generator of signature-opcode cases (C02, also used by C11): a transaction context, a script from a template with
OP_CODESEPARATOR / FindAndDelete / branch variations, and signatures produced by the independent signer.

Signatures are obtained by a *signing pass*: the reference interpreter runs the script with placeholder signatures and a checker
that records, for every placeholder it is asked about, the exact digest of that context (legacy / BIP143 / BIP341-342 incl. code
separator position, annex, leaf hash); the placeholders are then replaced by real signatures over the recorded digests."""
from hypothesis import strategies as st

from ..ref import script as R, secp, tx as T, verify as V
from ..ref.script import F
from . import scripts as G

# deterministic key pool (secret known)
_POOL = []
for _i in range(1, 13):
    _d = int.from_bytes(R.sha256(b'vf-key-%d' % _i), 'big') % secp.N
    _pt = secp.gen(_d)
    _POOL.append(dict(d=_d, pt=_pt, comp=secp.ser_pub(_pt, True), uncomp=secp.ser_pub(_pt, False), x=secp.xonly(_pt),
                      hybrid=bytes([6 + (_pt[1] & 1)]) + secp.ser_pub(_pt, False)[1:]))

SIGFLAGS = ['DERSIG', 'LOW_S', 'STRICTENC', 'NULLFAIL', 'NULLDUMMY', 'WITNESS_PUBKEYTYPE', 'CONST_SCRIPTCODE', 'DISCOURAGE_UPGRADABLE_PUBKEYTYPE']
ENC_FLAGS = F['DERSIG'] | F['LOW_S'] | F['STRICTENC'] | F['NULLFAIL'] | F['WITNESS_PUBKEYTYPE'] | F['DISCOURAGE_UPGRADABLE_PUBKEYTYPE'] | F['NULLDUMMY'] | F['CONST_SCRIPTCODE']


def P(d):
    return R.push_enc(d)


def num(n):
    return G.push(R.num_enc(n), 0)


class SignChecker(V.Checker):
    """returns True for a placeholder offered to its intended key and records the digest it would have to sign"""

    def __init__(self, tx, nin, amount, spent, intended):
        V.Checker.__init__(self, tx, nin, amount, spent)
        self.intended = intended          # placeholder bytes -> key bytes
        self.digests = {}

    def check_ecdsa(self, sig, key, scriptcode, sv):
        if sig in self.intended:
            if self.intended[sig] != key:
                return False
            ht = sig[-1]
            h = T.sighash_v0(self.tx, self.nin, scriptcode, self.amount, ht) if sv == R.WITNESS_V0 else T.sighash_legacy(self.tx, self.nin, scriptcode, ht)
            self.digests[sig] = h
            return True
        return V.Checker.check_ecdsa(self, sig, key, scriptcode, sv)

    def check_schnorr(self, sig, key, sv, ed):
        if sig in self.intended:
            if self.intended[sig] != key:
                return 'SCHNORR_SIG'
            ht = sig[64] if len(sig) == 65 else 0
            h = T.sighash_taproot(self.tx, self.nin, self.spent, ht, ed['annex'], ed['leaf'] if sv == R.TAPSCRIPT else None, ed['codesep'])
            if h is None:
                return 'SCHNORR_SIG_HASHTYPE'
            self.digests[sig] = h
            return True
        return V.Checker.check_schnorr(self, sig, key, sv, ed)


@st.composite
def tx_context(draw, taproot=False):
    t = T.Tx()
    t.version = draw(st.sampled_from([1, 2, 2, -1, 0x7fffffff]))
    t.locktime = draw(st.sampled_from([0, 0, 1, 499999999, 500000000, 0xffffffff]))
    nin = draw(st.integers(1, 4))
    nout = draw(st.integers(1, 4))
    t.vin = [dict(txid=draw(st.binary(min_size=32, max_size=32)), n=draw(st.integers(0, 3)), script=b'', seq=draw(st.sampled_from([0, 1, 0xfffffffe, 0xffffffff])), wit=[]) for _ in range(nin)]
    t.vout = [dict(value=draw(st.integers(0, 10 ** 9)), spk=draw(st.sampled_from([b'\x51', b'\x00\x14' + bytes(20), b'\x76\xa9\x14' + bytes(20) + b'\x88\xac', b'']))) for _ in range(nout)]
    idx = draw(st.integers(0, nin - 1))
    amount = draw(st.sampled_from([0, 1, 546, 100000, 2100000000000000]))
    spent = [dict(value=draw(st.integers(1, 10 ** 8)), spk=draw(st.sampled_from([b'\x51', b'\x51\x20' + bytes(32), b'\x00\x14' + bytes(20)]))) for _ in range(nin)]
    spent[idx] = dict(value=amount, spk=b'\x51\x20' + bytes(range(32)) if taproot else draw(st.sampled_from([b'\x51', b'\x00\x20' + bytes(32)])))
    return t, idx, amount, spent


ecdsa_hashtypes = st.one_of(st.sampled_from([1, 1, 1, 2, 3, 0x81, 0x82, 0x83]), st.integers(0, 255))
schnorr_hashtypes = st.one_of(st.sampled_from([0, 0, 0, 1, 2, 3, 0x81, 0x82, 0x83]), st.sampled_from([0x100, 4, 0x80, 0x84, 0x7f, 0xff, 0x41]))   # 0x100 = explicit 0x00 byte


def _placeholder(i, ht, schnorr):
    if schnorr:
        body = bytes([0xe0 + i]) * 64
        if ht == 0:
            return body
        return body + bytes([ht & 0xff])
    return bytes([0xf0, i, 0x77, 0x66, 0x55, 0x44, 0x33, 0x22, 0x11]) + bytes([ht])


@st.composite
def sig_case(draw):
    sv = draw(st.sampled_from([R.BASE, R.BASE, R.WITNESS_V0, R.WITNESS_V0, R.TAPSCRIPT, R.TAPSCRIPT, R.TAPROOT]))
    schnorr = sv in (R.TAPROOT, R.TAPSCRIPT)
    tx, idx, amount, spent = draw(tx_context(taproot=schnorr))
    flags = 0
    for n in SIGFLAGS:
        if draw(st.integers(0, 2)) == 0:
            flags |= F[n]
    if draw(st.integers(0, 3)) == 0:
        flags |= F['MINIMALDATA']
    keys = draw(st.permutations(_POOL))[:6]
    annex = None
    if schnorr and draw(st.integers(0, 3)) == 0:
        annex = b'\x50' + draw(st.binary(max_size=8))
    intended = {}
    stack = []
    descr = dict(sv=sv)
    nsig = [0]

    def keybytes(k, form=None):
        if schnorr:
            return k['x']
        form = form or draw(st.sampled_from(['comp', 'comp', 'comp', 'uncomp', 'hybrid']))
        return k[form]

    def new_sig(kb):
        ht = draw(schnorr_hashtypes if schnorr else ecdsa_hashtypes)
        if schnorr and ht == 0x100:
            ph = bytes([0xe0 + nsig[0]]) * 64 + b'\x00'
        else:
            ph = _placeholder(nsig[0], ht, schnorr)
        nsig[0] += 1
        intended[ph] = kb
        return ph

    def codesep():
        k = draw(st.integers(0, 9))
        if k < 5:
            return b''
        if k < 7:
            return b'\xab'
        if k == 7:
            return b'\x51\x63\xab\x68'          # inside an executed branch
        if k == 8:
            return b'\x00\x63\xab\x68'          # inside an unexecuted branch: must not count
        if sv == R.TAPSCRIPT and draw(st.integers(0, 3)) == 0:
            # the BIP342 digest commits to the opcode position of the last executed code separator as 32 bits: positions beyond one and two bytes
            return b'\x61' * draw(st.sampled_from([253, 254, 255, 256, 257, 300, 65533, 65534, 65535, 65536])) + b'\xab'
        return b'\xab\x61\xab'

    if sv == R.TAPROOT:
        template = 'keypath'
        kb = keys[0]['x']
        script = P(kb) + b'\xac'
        stack = [new_sig(kb)]
        if annex is not None and draw(st.booleans()):
            pass
    else:
        template = draw(st.sampled_from(['checksig', 'checksigverify', 'p2pkh', 'multisig', 'multisig', 'mixed'] + (['checksigadd', 'checksigadd'] if sv == R.TAPSCRIPT else ['findanddelete'] if sv == R.BASE else [])))
        if sv == R.TAPSCRIPT and template in ('multisig', 'p2pkh'):
            template = 'checksigadd'
        body = bytearray()
        if template in ('checksig', 'checksigverify', 'mixed'):
            n = 1 if template != 'mixed' else draw(st.integers(2, 3))
            for i in range(n):
                kb = keybytes(keys[i])
                body += codesep()
                sig = new_sig(kb)
                stack.insert(0, sig)
                body += P(kb) + (b'\xad' if (template == 'checksigverify' or i < n - 1) else b'\xac')
            if template == 'checksigverify':
                body += b'\x51'
        elif template == 'p2pkh':
            kb = keybytes(keys[0])
            body += codesep() + b'\x76\xa9\x14' + R.ripemd(R.sha256(kb)) + b'\x88' + codesep() + b'\xac'
            stack = [new_sig(kb), kb]
        elif template == 'multisig':
            big = draw(st.integers(0, 9)) == 0
            n = draw(st.integers(15, 20)) if big else draw(st.integers(1, 5))
            k = draw(st.integers(0, min(n, 3)))
            # up to six keys with known secrets sit at random positions among the n keys (also the very last ones); the rest are well-formed dummies
            nreal = min(n, len(keys))
            realpos = sorted(draw(st.lists(st.integers(0, n - 1), min_size=nreal, max_size=nreal, unique=True))) if n > nreal else list(range(n))
            ks = [bytes([2]) + bytes([i + 1]) * 32 for i in range(n)]
            for j, pos_ in enumerate(realpos):
                ks[pos_] = keybytes(keys[j], 'comp' if n > len(keys) else None)
            k = min(k, nreal)
            chosen = sorted(draw(st.lists(st.sampled_from(realpos), min_size=k, max_size=k, unique=True)))
            sigs = [new_sig(ks[i]) for i in chosen]
            if draw(st.integers(0, 5)) == 0 and len(sigs) >= 2:
                sigs.reverse()
                descr['wrong_order'] = True
            verify = draw(st.booleans())
            body += codesep() + num(len(sigs)) + b''.join(P(x) for x in ks) + num(n) + (b'\xaf\x51' if verify else b'\xae')
            dummy = b'' if draw(st.integers(0, 5)) else b'\x01'
            stack = [dummy] + sigs
        elif template == 'checksigadd':
            n = draw(st.integers(1, 4))
            need = draw(st.integers(0, n))
            use = sorted(draw(st.lists(st.integers(0, n - 1), min_size=need, max_size=need, unique=True)))
            sigs = []
            for i in range(n):
                kb = keys[i]['x']
                if draw(st.integers(0, 11)) == 0:
                    kb = draw(st.sampled_from([kb + b'\x01', kb[:31], keys[i]['comp'], b'']))     # unknown key type / empty key
                    descr['odd_key'] = True
                body += codesep() + P(kb) + (b'\xac' if i == 0 else b'\xba')
                sigs.append(new_sig(kb) if i in use else b'')
            body += num(need) + b'\x9c'
            stack = list(reversed(sigs))
        elif template == 'findanddelete':
            kb = keybytes(keys[0])
            sig = new_sig(kb)
            where = draw(st.sampled_from(['unexecuted', 'dropped', 'after']))
            MARK = b'\x00\x00MARK\x00\x00'
            if where == 'unexecuted':
                body += b'\x00\x63' + MARK + b'\x68' + P(kb) + b'\xac'
            elif where == 'dropped':
                body += MARK + b'\x75' + P(kb) + b'\xac'
            else:
                body += P(kb) + b'\xac' + b'\x69' + MARK
            stack = [sig]
            descr['fad'] = where
            script = bytes(body).replace(MARK, P(sig))
            body = bytearray(script)
        script = bytes(body)
    weight = None
    leaf = None
    if sv == R.TAPSCRIPT:
        leaf = V.tapleaf(0xc0, script)
        nonempty = sum(1 for s in stack if len(s) > 0)
        # budget: just enough, one short, or plenty
        weight = draw(st.sampled_from([50 * nonempty, 50 * nonempty - 1, 50 * nonempty + 49, 1000000, 1000000]))
    # ---------------- signing pass
    ed = dict(annex=annex, leaf=leaf, codesep=0xffffffff, weight=1000000 if sv == R.TAPSCRIPT else None)
    ck = SignChecker(tx, idx, amount, spent, intended)
    R.run(script, stack, flags & ~ENC_FLAGS, sv, checker=ck, execdata=dict(ed), keep_trace=False)
    real = {}
    for ph, kb in intended.items():
        h = ck.digests.get(ph)
        key = next((k for k in _POOL if kb in (k['comp'], k['uncomp'], k['hybrid'], k['x'])), None)
        if h is None or key is None:
            # never evaluated (e.g. wrong order, unexecuted) or an odd key: a syntactically plausible but meaningless signature
            real[ph] = (bytes(64) if schnorr else secp.der_sig(1, 1)) + (ph[64:] if schnorr else ph[-1:])
            continue
        if schnorr:
            real[ph] = secp.schnorr_sign(key['d'], h) + ph[64:]
        else:
            r, s = secp.ecdsa_sign(key['d'], h)
            real[ph] = secp.der_sig(r, s) + ph[-1:]
    stack = [real.get(x, x) for x in stack]
    for ph, rs in real.items():
        if ph in script:
            script = script.replace(P(ph), P(rs))
    if sv == R.TAPSCRIPT:
        leaf = V.tapleaf(0xc0, script)      # unchanged unless the script embedded a signature (not generated for tapscript)
    case = dict(tx=tx, idx=idx, amount=amount, spent=spent, sv=sv, script=script, stack=stack, flags=flags, annex=annex, leaf=leaf, weight=weight,
                template=template, descr=descr, corruption='none')
    # ---------------- optional corruption after signing
    corr = draw(st.sampled_from(['none', 'none', 'none', 'sig-bit', 'sig-byte', 'key-bit', 'amount', 'other-seq', 'own-seq', 'output', 'locktime', 'version', 'scriptcode', 'annex', 'leaf',
                                 'high-s', 'der-pad', 'der-neg', 'hashtype-byte', 'empty-sig', 'drop-spent', 'swap-inputs']))
    apply_corruption(draw, case, corr)
    return case


def _sig_positions(case):
    return [i for i, x in enumerate(case['stack']) if len(x) >= 9 and (x[0] == 0x30 or len(x) in (64, 65))]


def apply_corruption(draw, case, corr):
    tx, idx = case['tx'], case['idx']
    schnorr = case['sv'] in (R.TAPROOT, R.TAPSCRIPT)
    pos = _sig_positions(case)
    done = True
    if corr == 'sig-bit' and pos:
        i = draw(st.sampled_from(pos))
        s = bytearray(case['stack'][i])
        j = draw(st.integers(0, len(s) - 1))
        s[j] ^= 1 << draw(st.integers(0, 7))
        case['stack'][i] = bytes(s)
    elif corr == 'sig-byte' and pos:
        i = draw(st.sampled_from(pos))
        s = bytearray(case['stack'][i])
        j = draw(st.integers(0, len(s) - 1))
        s[j] = draw(st.integers(0, 255))
        case['stack'][i] = bytes(s)
    elif corr == 'key-bit':
        ops = R.decode(case['script'])
        cands = [e for e in ops if e is not None and e[1] is not None and len(e[1]) in (32, 33, 65)]
        if cands:
            e = draw(st.sampled_from(cands))
            start = e[2] - len(e[1])
            j = start + draw(st.integers(0, len(e[1]) - 1))
            s = bytearray(case['script'])
            s[j] ^= 1 << draw(st.integers(0, 7))
            case['script'] = bytes(s)
            if case['sv'] == R.TAPSCRIPT:
                case['leaf'] = V.tapleaf(0xc0, case['script'])
        else:
            done = False
    elif corr == 'amount':
        case['amount'] += 1
        case['spent'][idx] = dict(case['spent'][idx], value=case['amount'])
    elif corr == 'other-seq' and len(tx.vin) > 1:
        j = (idx + 1) % len(tx.vin)
        tx.vin[j]['seq'] ^= 1
    elif corr == 'own-seq':
        tx.vin[idx]['seq'] ^= 2
    elif corr == 'output':
        j = draw(st.integers(0, len(tx.vout) - 1))
        tx.vout[j]['value'] += 1
    elif corr == 'locktime':
        tx.locktime ^= 1
    elif corr == 'version':
        tx.version ^= 1
    elif corr == 'scriptcode' and not schnorr:
        case['script'] = case['script'] + b'\x61'
    elif corr == 'annex' and schnorr:
        case['annex'] = (case['annex'] + b'\x00') if case['annex'] is not None else b'\x50'
    elif corr == 'leaf' and case['sv'] == R.TAPSCRIPT:
        lf = bytearray(case['leaf'])
        lf[draw(st.integers(0, 31))] ^= 1
        case['leaf'] = bytes(lf)
    elif corr == 'high-s' and pos and not schnorr:
        i = draw(st.sampled_from(pos))
        rs = secp.lax_der_parse(case['stack'][i][:-1])
        if rs and rs[1]:
            case['stack'][i] = secp.der_sig(rs[0], secp.N - rs[1]) + case['stack'][i][-1:]
    elif corr == 'der-pad' and pos and not schnorr:
        i = draw(st.sampled_from(pos))
        rs = secp.lax_der_parse(case['stack'][i][:-1])
        if rs:
            rb = b'\x00' + rs[0].to_bytes(33, 'big').lstrip(b'\x00').rjust(1, b'\x00')
            if rb[1] & 0x80:
                rb = b'\x00' + rb
            sb = rs[1].to_bytes(32, 'big').lstrip(b'\x00') or b'\x00'
            if sb[0] & 0x80:
                sb = b'\x00' + sb
            body = b'\x02' + bytes([len(rb)]) + rb + b'\x02' + bytes([len(sb)]) + sb
            case['stack'][i] = b'\x30' + bytes([len(body)]) + body + case['stack'][i][-1:]
    elif corr == 'der-neg' and pos and not schnorr:
        i = draw(st.sampled_from(pos))
        rs = secp.lax_der_parse(case['stack'][i][:-1])
        if rs:
            rb = rs[0].to_bytes(32, 'big').lstrip(b'\x00') or b'\x00'      # no 00 padding even if the top bit is set
            sb = rs[1].to_bytes(32, 'big').lstrip(b'\x00') or b'\x00'
            if sb[0] & 0x80:
                sb = b'\x00' + sb
            body = b'\x02' + bytes([len(rb)]) + rb + b'\x02' + bytes([len(sb)]) + sb
            case['stack'][i] = b'\x30' + bytes([len(body)]) + body + case['stack'][i][-1:]
    elif corr == 'hashtype-byte' and pos:
        i = draw(st.sampled_from(pos))
        s = case['stack'][i]
        if schnorr and len(s) == 64:
            case['stack'][i] = s + bytes([draw(st.sampled_from([0, 1, 0x81, 4]))])
        else:
            case['stack'][i] = s[:-1] + bytes([draw(st.integers(0, 255))])
    elif corr == 'empty-sig' and pos:
        i = draw(st.sampled_from(pos))
        case['stack'][i] = b''
    elif corr == 'drop-spent' and schnorr and len(case['spent']) > 1:
        j = (idx + 1) % len(case['spent'])
        case['spent'][j] = dict(case['spent'][j], value=case['spent'][j]['value'] + 1)
    elif corr == 'swap-inputs' and len(tx.vin) > 1:
        j = (idx + 1) % len(tx.vin)
        tx.vin[idx]['n'], tx.vin[j]['n'] = tx.vin[j]['n'] ^ 1, tx.vin[idx]['n']
    else:
        done = False
    case['corruption'] = corr if done else 'none'
