import random, hashlib, struct
from ..ref import script as R, secp, tx as reftx, verify as V
from ..ref.script import F
def h160(b): return R.ripemd(R.sha256(b))
def P(d): return R.push_enc(d)
def num(n): 
    if n == 0: return b'\x00'
    if 1 <= n <= 16: return bytes([0x50 + n])
    return P(R.num_enc(n))
class Key:
    def __init__(s, rnd, compressed=True):
        s.d = rnd.randrange(1, secp.N); s.pt = secp.gen(s.d); s.pub = secp.ser_pub(s.pt, compressed); s.x = secp.xonly(s.pt)
def mk_funding(rnd, spk, value):
    t = reftx.Tx(); t.version = rnd.choice([1, 2])
    t.vin = [dict(txid=rnd.randbytes(32), n=rnd.randrange(4), script=b'\x51', seq=0xffffffff, wit=[])]
    nout = rnd.randint(1, 3); pos = rnd.randrange(nout)
    t.vout = [dict(value=rnd.randrange(1, 10**8), spk=b'\x51') for _ in range(nout)]
    t.vout[pos] = dict(value=value, spk=spk)
    return t, pos
def mk_spending(rnd, fund, pos, ninputs=None):
    t = reftx.Tx(); t.version = rnd.choice([1, 2, 2, 2]); t.locktime = rnd.choice([0, 0, 500, 500000001])
    nin = ninputs or rnd.choice([1, 1, 1, 2, 3]); idx = rnd.randrange(nin)
    t.vin = [dict(txid=rnd.randbytes(32), n=rnd.randrange(3), script=b'', seq=rnd.choice([0xffffffff, 0xfffffffe, 10]), wit=[]) for _ in range(nin)]
    t.vin[idx]['txid'] = fund.txid(); t.vin[idx]['n'] = pos
    t.vout = [dict(value=rnd.randrange(1, 10**7), spk=b'\x00\x14' + rnd.randbytes(20)) for _ in range(rnd.randint(1, 3))]
    return t, idx
def ecdsa(k, h, ht=1): return secp.der_sig(*secp.ecdsa_sign(k.d, h)) + bytes([ht])
TYPES = ['p2pk', 'p2pkh', 'multisig', 'p2sh-multisig', 'p2wpkh', 'p2wsh', 'p2sh-p2wpkh', 'p2sh-p2wsh', 'p2tr-key', 'p2tr-script']
def build(rnd, typ, ninputs=None):
    """returns dict(tx, fund, idx, type, meta) valid spend"""
    value = rnd.randrange(1000, 10**9)
    k = [Key(rnd) for _ in range(3)]
    ht = rnd.choice([1, 1, 1, 2, 3, 0x81, 0x82, 0x83])
    ms = num(2) + P(k[0].pub) + P(k[1].pub) + P(k[2].pub) + num(3) + b'\xae'
    meta = {}
    if typ == 'p2pk': spk = P(k[0].pub) + b'\xac'
    elif typ == 'p2pkh': spk = b'\x76\xa9\x14' + h160(k[0].pub) + b'\x88\xac'
    elif typ == 'multisig': spk = ms
    elif typ == 'p2sh-multisig': spk = b'\xa9\x14' + h160(ms) + b'\x87'
    elif typ == 'p2wpkh': spk = b'\x00\x14' + h160(k[0].pub)
    elif typ == 'p2wsh': spk = b'\x00\x20' + R.sha256(ms)
    elif typ == 'p2sh-p2wpkh': redeem = b'\x00\x14' + h160(k[0].pub); spk = b'\xa9\x14' + h160(redeem) + b'\x87'
    elif typ == 'p2sh-p2wsh': redeem = b'\x00\x20' + R.sha256(ms); spk = b'\xa9\x14' + h160(redeem) + b'\x87'
    elif typ in ('p2tr-key', 'p2tr-script'):
        depth = rnd.randint(0, 3)
        leaf_script = P(k[1].x) + b'\xac'
        if rnd.random() < 0.3: leaf_script = P(k[1].x) + b'\xad' + b'\x51'
        if rnd.random() < 0.3: leaf_script = b'\x51\x69\xab' + leaf_script   # OP_1 OP_VERIFY OP_CODESEPARATOR ...
        leaf = V.tapleaf(0xc0, leaf_script)
        path = [rnd.randbytes(32) for _ in range(depth)]
        root = leaf
        for n_ in path: root = secp.tagged('TapBranch', root + n_ if root < n_ else n_ + root)
        q, par = secp.taproot_tweak_pub(k[0].x, root)
        spk = b'\x51\x20' + q
        meta.update(leaf_script=leaf_script, leaf=leaf, path=path, root=root, par=par)
    fund, pos = mk_funding(rnd, spk, value)
    if typ.startswith('p2tr'): ninputs = ninputs or 1
    tx, idx = mk_spending(rnd, fund, pos, ninputs)
    vin = tx.vin[idx]
    spent_all = [dict(value=value, spk=spk) if i == idx else dict(value=rnd.randrange(1, 10**8), spk=b'\x51') for i in range(len(tx.vin))]
    if typ == 'p2pk': vin['script'] = P(ecdsa(k[0], reftx.sighash_legacy(tx, idx, spk, ht), ht))
    elif typ == 'p2pkh': vin['script'] = P(ecdsa(k[0], reftx.sighash_legacy(tx, idx, spk, ht), ht)) + P(k[0].pub)
    elif typ == 'multisig':
        h = reftx.sighash_legacy(tx, idx, spk, ht); vin['script'] = b'\x00' + P(ecdsa(k[0], h, ht)) + P(ecdsa(k[2], h, ht))
    elif typ == 'p2sh-multisig':
        h = reftx.sighash_legacy(tx, idx, ms, ht); vin['script'] = b'\x00' + P(ecdsa(k[1], h, ht)) + P(ecdsa(k[2], h, ht)) + P(ms)
    elif typ in ('p2wpkh', 'p2sh-p2wpkh'):
        sc = b'\x76\xa9\x14' + h160(k[0].pub) + b'\x88\xac'
        vin['wit'] = [ecdsa(k[0], reftx.sighash_v0(tx, idx, sc, value, ht), ht), k[0].pub]
        if typ.startswith('p2sh'): vin['script'] = P(redeem)
    elif typ in ('p2wsh', 'p2sh-p2wsh'):
        h = reftx.sighash_v0(tx, idx, ms, value, ht); vin['wit'] = [b'', ecdsa(k[0], h, ht), ecdsa(k[1], h, ht), ms]
        if typ.startswith('p2sh'): vin['script'] = P(redeem)
    elif typ == 'p2tr-key':
        sht = rnd.choice([0, 0, 1, 2, 3, 0x81, 0x83]); annex = (b'\x50' + rnd.randbytes(rnd.randint(0, 5))) if rnd.random() < 0.25 else None
        d = secp.taproot_tweak_sec(k[0].d, meta['root'])
        h = reftx.sighash_taproot(tx, idx, spent_all, sht, annex, None)
        if h is None: sht = 0; h = reftx.sighash_taproot(tx, idx, spent_all, sht, annex, None)
        sig = secp.schnorr_sign(d, h) + (bytes([sht]) if sht else b'')
        vin['wit'] = [sig] + ([annex] if annex else [])
        meta.update(annex=annex)
    elif typ == 'p2tr-script':
        sht = rnd.choice([0, 0, 1, 2, 3, 0x81, 0x83]); annex = (b'\x50' + rnd.randbytes(rnd.randint(0, 5))) if rnd.random() < 0.25 else None
        ls = meta['leaf_script']
        csp = 0xffffffff
        ops = R.decode(ls)
        for n_, e in enumerate(ops):
            if e[0] == 0xab: csp = n_
        h = reftx.sighash_taproot(tx, idx, spent_all, sht, annex, meta['leaf'], csp)
        if h is None: sht = 0; h = reftx.sighash_taproot(tx, idx, spent_all, sht, annex, meta['leaf'], csp)
        sig = secp.schnorr_sign(k[1].d, h) + (bytes([sht]) if sht else b'')
        control = bytes([0xc0 | meta['par']]) + k[0].x + b''.join(meta['path'])
        vin['wit'] = [sig, ls, control] + ([annex] if annex else [])
        meta.update(annex=annex, csp=csp)
    return dict(tx=tx, fund=fund, idx=idx, pos=pos, type=typ, value=value, spk=spk, spent_all=spent_all, meta=meta, keys=k)
def flip(b, rnd):
    if not b: return b'\x01'
    i = rnd.randrange(len(b)); return b[:i] + bytes([b[i] ^ (1 << rnd.randrange(8))]) + b[i+1:]
CORR = ['none', 'sigbit', 'amount', 'output', 'sequence', 'locktime', 'drop_wit', 'extra_wit', 'empty_wit', 'proghash', 'control', 'select_bad']
def corrupt(c, kind, rnd):
    tx, fund, idx = c['tx'], c['fund'], c['idx']; vin = tx.vin[idx]
    if kind == 'sigbit':
        if vin['wit']:
            j = 0 if len(vin['wit'][0]) > 0 else 1; vin['wit'][j] = flip(vin['wit'][j][:-1], rnd) + vin['wit'][j][-1:]
        else:
            ops = R.decode(vin['script']); 
            # flip a bit inside first non-empty push (the signature)
            for e in ops:
                if e[1]:
                    start = e[2] - len(e[1]); pos = start + 6 + rnd.randrange(20)
                    s = bytearray(vin['script']); s[pos] ^= 1 << rnd.randrange(8); vin['script'] = bytes(s); break
    elif kind == 'amount': fund.vout[c['pos']]['value'] += 1; fix_txid(c)
    elif kind == 'output': tx.vout[0]['value'] += 1
    elif kind == 'sequence': vin['seq'] ^= 1
    elif kind == 'locktime': tx.locktime ^= 1
    elif kind == 'drop_wit' and vin['wit']: vin['wit'] = vin['wit'][1:]
    elif kind == 'extra_wit' and vin['wit']: vin['wit'] = [b'\x01'] + vin['wit']
    elif kind == 'empty_wit' and vin['wit']: vin['wit'] = []
    elif kind == 'proghash':
        s = bytearray(fund.vout[c['pos']]['spk']); s[-3] ^= 1; fund.vout[c['pos']]['spk'] = bytes(s); fix_txid(c)
    elif kind == 'control' and c['type'] == 'p2tr-script':
        j = 2; vin['wit'][j] = flip(vin['wit'][j], rnd)
    return c
def fix_txid(c): c['tx'].vin[c['idx']]['txid'] = c['fund'].txid()
