"""Funding/spending transaction pairs for every supported output type, signed by the independent signer (vf.ref.secp over
vf.ref.tx digests), plus single corruptions. `rnd` is a random.Random-like object supplied by Hypothesis (st.randoms), so
every choice is a library draw."""
from ..ref import script as R, secp, tx as reftx, verify as V
from ..ref.script import F


def h160(b):
    return R.ripemd(R.sha256(b))


def P(d):
    return R.push_enc(d)


def num(n):
    if n == 0:
        return b'\x00'
    if 1 <= n <= 16:
        return bytes([0x50 + n])
    return P(R.num_enc(n))


_KEYCACHE = {}


class Key:
    def __init__(s, rnd, compressed=True):
        i = rnd.randrange(0, 64)
        if i not in _KEYCACHE:
            d = int.from_bytes(R.sha256(b'spend-key-%d' % i), 'big') % secp.N
            _KEYCACHE[i] = (d, secp.gen(d))
        s.d, s.pt = _KEYCACHE[i]
        s.pub = secp.ser_pub(s.pt, compressed)
        s.x = secp.xonly(s.pt)


def mk_funding(rnd, spk, value):
    t = reftx.Tx()
    t.version = rnd.choice([1, 2])
    t.vin = [dict(txid=bytes(rnd.getrandbits(8) for _ in range(32)), n=rnd.randrange(4), script=b'\x51', seq=0xffffffff, wit=[])]
    nout = rnd.randint(1, 4)
    pos = rnd.randrange(nout)
    t.vout = [dict(value=rnd.randrange(1, 10 ** 8), spk=rnd.choice([b'\x51', b'\x00\x14' + bytes(20), b'\x6a'])) for _ in range(nout)]
    t.vout[pos] = dict(value=value, spk=spk)
    return t, pos


def mk_spending(rnd, fund, pos, ninputs=None, same_fund_decoy=False):
    t = reftx.Tx()
    t.version = rnd.choice([1, 2, 2, 2])
    t.locktime = rnd.choice([0, 0, 500, 500000001])
    nin = ninputs or rnd.choice([1, 1, 1, 2, 3, 4])
    idx = rnd.randrange(nin)
    t.vin = [dict(txid=bytes(rnd.getrandbits(8) for _ in range(32)), n=rnd.randrange(3), script=b'', seq=rnd.choice([0xffffffff, 0xfffffffe, 10]), wit=[]) for _ in range(nin)]
    t.vin[idx]['txid'] = fund.txid()
    t.vin[idx]['n'] = pos
    # other inputs of the spending transaction may be segwit inputs (mixed transactions): their witness must not influence
    # how the debugged input is set up or hashed
    for j in range(nin):
        if j != idx and rnd.random() < 0.35:
            t.vin[j]['wit'] = [bytes(rnd.getrandbits(8) for _ in range(rnd.choice([1, 33, 71])))] * rnd.choice([1, 2])
    decoy = None
    if same_fund_decoy and nin >= 2 and len(fund.vout) >= 2:
        # a second input spending another output of the same funding transaction (exercises --select)
        j = (idx + 1 + rnd.randrange(nin - 1)) % nin
        other = [k for k in range(len(fund.vout)) if k != pos]
        t.vin[j]['txid'] = fund.txid()
        t.vin[j]['n'] = rnd.choice(other)
        decoy = j
    t.vout = [dict(value=rnd.randrange(1, 10 ** 7), spk=b'\x00\x14' + bytes(rnd.getrandbits(8) for _ in range(20))) for _ in range(rnd.randint(1, 3))]
    return t, idx, decoy


def ecdsa(k, h, ht=1):
    return secp.der_sig(*secp.ecdsa_sign(k.d, h)) + bytes([ht])


TYPES = ['p2pk', 'p2pkh', 'multisig', 'p2sh-multisig', 'p2sh-script', 'p2wpkh', 'p2wsh', 'p2wsh-script', 'p2sh-p2wpkh', 'p2sh-p2wsh', 'p2tr-key', 'p2tr-script', 'p2wsh-codesep', 'bare-script']

# (scriptSig, scriptPubKey) pairs of a keyless bare output. Validation runs the two scripts one after the other on the same main stack, but each with its own
# alt stack and its own conditional nesting (an IF left open at the end of the scriptSig is an error there); non-push operations in a scriptSig are allowed
# unless SIGPUSHONLY is set
BARE_PAIRS = [(b'\x51', b'\x51\x87'), (b'\x52\x53', b'\x93\x55\x87'), (b'\x51\x51\x93', b'\x52\x87'), (b'\x51\x76\x75', b'\x51\x87'), (b'\x74', b'\x00\x87'),
              (b'\x51\x6b', b'\x6c'), (b'\x51\x51\x6b', b'\x6c\x87'), (b'\x51\x6b\x51', b'\x75\x6c'), (b'\x51\x6b\x51', b''),
              (b'\x51\x63', b'\x68\x51'), (b'\x51\x63', b'\x51\x68'), (b'\x51\x00\x63', b'\x00\x69\x68'), (b'\x00\x63', b'\x68\x51'), (b'\x51\x63\x51\x67', b'\x68'),
              (b'\x51\x63\x68', b''), (b'\x51\x61', b''), (b'', b'\x51'), (b'\x51\x51', b'\x75'), (b'\x51\x51', b''), (b'\x00', b''), (b'\x51\x69\x51', b'')]


def arith_script(rnd, allow_invalid=False):
    """a keyless script with arguments: <a> <b> on the stack, script checks a+b == c under some branches"""
    a, b = rnd.randrange(0, 1000), rnd.randrange(0, 1000)
    body = b'\x93' + num(a + b) + b'\x87'
    if rnd.random() < 0.5:
        body = b'\x63' + body + b'\x67\x75\x75\x00\x68'     # IF <check> ELSE 2DROP-ish 0 ENDIF
        args = [R.num_enc(a), R.num_enc(b), b'\x01']
    else:
        args = [R.num_enc(a), R.num_enc(b)]
    r_ = rnd.random()
    if r_ < 0.08:
        # an argument at / over the element size limit (520 bytes), dropped by the script: as a witness argument it is subject to the limit like a push
        n = rnd.choice([519, 520, 520, 521, 521, 600])
        if not allow_invalid:
            n = min(n, 520)
        return b'\x75\x51', [bytes([7]) * n]
    if r_ < 0.12:
        # many arguments: a tapscript's initial stack is limited to 1000 items, a witness v0 script's is not (only the stack while executing is)
        n = rnd.choice([100, 101, 999, 1000, 1000, 1001, 1001, 1002])
        if not allow_invalid:
            n = min(n, 999)          # (a P2SH scriptSig pushes the arguments AND the redeem script: 1000 arguments are already one too many there)
        return b'\x6d' * ((n - 1) // 2) + (b'\x75' if (n - 1) % 2 else b''), [b'\x01'] * n
    r2 = rnd.random()
    if r2 < 0.07:
        # the 201-operation limit inside the script that is run LAST (P2SH redeem script, witness script; a tapscript leaf has no such limit): n counted
        # operations, at the limit and around it - operations counted in an earlier script section (HASH160 EQUAL of the P2SH output) do not add to it
        n = rnd.choice([199, 200, 200, 201, 201, 202])
        if not allow_invalid:
            n = min(n, 201)
        arith_script.hint = None
        return b'\x61' * n + b'\x51', []
    if r2 < 0.14 and allow_invalid:
        # the argument of OP_IF: anything but the empty string and the single byte 01 is refused in tapscript (always) and in witness v0 scripts (under MINIMALIF)
        arith_script.hint = 'MINIMALIF'
        return b'\x63\x51\x67\x51\x68', [rnd.choice([b'\x02', b'\x01\x00', b'\x00', b'\x01', b'', b'\x81', b'\x01\x01'])]
    if r2 < 0.2 and allow_invalid:
        # a script that is itself longer than a stack element may be (520 bytes) and around the script size limit (10,000 bytes; none for a tapscript
        # leaf): as witness script / leaf it is not an element of the executed stack. (As a P2SH redeem script it would have to be pushed: invalid there.)
        size = rnd.choice([521, 600, 1500, 9999, 10000, 10000, 10001, 10001, 12000])
        unit = b'\x4d\x08\x02' + bytes([3]) * 520 + b'\x75'       # PUSHDATA2 <520 bytes> OP_DROP: 524 bytes
        n = (size - 1) // len(unit)
        fill = size - 1 - n * len(unit)
        if fill > 150:
            n, fill = max(0, n - 0), fill
        body = unit * n
        # the rest in pushes of up to 75 bytes followed by a DROP (few counted operations)
        while fill >= 3:
            k = min(75, fill - 2)
            body += bytes([k]) + bytes([5]) * k + b'\x75'
            fill -= k + 2
        body += b'\x61' * fill + b'\x51'
        arith_script.hint = None
        return body, []
    arith_script.hint = None
    if rnd.random() < 0.12:
        # a keyless script of the pay-to-script-hash SHAPE whose argument is its hash preimage: as a witness script, tapscript leaf or P2SH redeem
        # script it is an ordinary script (the preimage is data, never run as a script)
        pre = rnd.choice([b'\x51', b'\x00', b'\x6a', b'\x51\x51\x93', b'\x75\x00', b'\xff', b'hello', b'\x52\x53\x94'])
        return b'\xa9\x14' + h160(pre) + b'\x87', [pre]
    return body, args


def build(rnd, typ, ninputs=None, same_fund_decoy=False, allow_invalid=False):
    """returns dict(tx, fund, idx, pos, type, value, spk, spent_all, meta) describing a VALID spend (allow_invalid: the sigreuse leaf may exceed its budget by one check)"""
    value = rnd.randrange(1000, 10 ** 9)
    k = [Key(rnd) for _ in range(3)]
    if k[0].d == k[1].d:
        k[1] = Key(rnd)
    ht = rnd.choice([1, 1, 1, 2, 3, 0x81, 0x82, 0x83])
    ms = num(2) + P(k[0].pub) + P(k[1].pub) + P(k[2].pub) + num(3) + b'\xae'
    meta = {}
    redeem = None
    arith_script.hint = None
    ascript, aargs = arith_script(rnd, allow_invalid)
    if arith_script.hint:
        meta['flag_hint'] = arith_script.hint
    if typ == 'p2pk':
        spk = P(k[0].pub) + b'\xac'
    elif typ == 'p2pkh':
        spk = b'\x76\xa9\x14' + h160(k[0].pub) + b'\x88\xac'
    elif typ == 'multisig':
        spk = ms
    elif typ == 'p2sh-multisig':
        spk = b'\xa9\x14' + h160(ms) + b'\x87'
    elif typ == 'p2sh-script':
        spk = b'\xa9\x14' + h160(ascript) + b'\x87'
    elif typ == 'p2wpkh':
        spk = b'\x00\x14' + h160(k[0].pub)
    elif typ == 'p2wsh':
        spk = b'\x00\x20' + R.sha256(ms)
    elif typ == 'p2wsh-script':
        spk = b'\x00\x20' + R.sha256(ascript)
    elif typ == 'bare-script':
        bare_sig, spk = rnd.choice(BARE_PAIRS)
    elif typ == 'p2wsh-codesep':
        # two REAL signatures around an executed code separator: each signs a different script code (BIP143: from the last executed separator on)
        cs_script = P(k[0].pub) + b'\xad' + (b'\x61' if rnd.random() < 0.3 else b'') + b'\xab' + P(k[1].pub) + (b'\xac' if rnd.random() < 0.7 else b'\xad\x51')
        spk = b'\x00\x20' + R.sha256(cs_script)
    elif typ == 'p2sh-p2wpkh':
        redeem = b'\x00\x14' + h160(k[0].pub)
        spk = b'\xa9\x14' + h160(redeem) + b'\x87'
    elif typ == 'p2sh-p2wsh':
        redeem = b'\x00\x20' + R.sha256(ms)
        spk = b'\xa9\x14' + h160(redeem) + b'\x87'
    elif typ in ('p2tr-key', 'p2tr-script'):
        depth = rnd.choice([0, 0, 1, 2, 3, 5])
        r = rnd.random()
        if r < 0.35:
            leaf_script = P(k[1].x) + b'\xac'
            meta['leafkind'] = 'checksig'
        elif r < 0.5:
            leaf_script = P(k[1].x) + b'\xad' + b'\x51'
            meta['leafkind'] = 'checksigverify'
        elif r < 0.7:
            leaf_script = P(k[1].x) + b'\xac' + P(k[2].x) + b'\xba' + num(2) + b'\x9c'
            meta['leafkind'] = 'checksigadd'
        elif r < 0.82:
            if rnd.random() < 0.3:
                # the 1000-item limit on a tapscript's initial stack, at and one over (and the 520-byte limit on its arguments)
                if rnd.random() < 0.6:
                    n_ = rnd.choice([999, 1000, 1000, 1001, 1001])
                    if not allow_invalid:
                        n_ = min(n_, 1000)
                    ascript, aargs = b'\x6d' * ((n_ - 1) // 2) + (b'\x75' if (n_ - 1) % 2 else b''), [b'\x01'] * n_
                else:
                    ascript, aargs = b'\x75\x51', [bytes([7]) * (rnd.choice([520, 521]) if allow_invalid else 520)]
            elif allow_invalid and rnd.random() < 0.3:
                # BIP342 makes the minimal-IF rule part of tapscript itself: it holds with the MINIMALIF policy flag removed too
                ascript, aargs = b'\x63\x51\x67\x51\x68', [rnd.choice([b'\x02', b'\x01\x00', b'\x00', b'\x01', b'', b'\x81', b'\x01\x01'])]
                meta['flag_hint'] = 'MINIMALIF'
            leaf_script = ascript
            meta['leafkind'] = 'keyless'
        elif r < 0.85:
            # degenerate leaves: the empty script (valid with exactly one true argument) and one-operation scripts
            leaf_script = rnd.choice([b'', b'', b'\x61', b'\x51\x75'])
            aargs = [b'\x01']
            meta['leafkind'] = 'keyless'
            meta['tiny_leaf'] = True
        elif r < 0.93 or typ != 'p2tr-script':
            leaf_script = b'\x51\x69\xab' + P(k[1].x) + b'\xac'    # OP_1 OP_VERIFY OP_CODESEPARATOR <key> OP_CHECKSIG
            meta['leafkind'] = 'codesep'
        else:
            # one signature checked N times (<key> (2DUP CHECKSIGVERIFY)*(N-1) CHECKSIG): BIP342 allows 50 + (serialized size of the whole
            # witness: arguments, script, control block, annex) units and charges 50 per check, so N sits at / one over that budget
            sht = rnd.choice([0, 0, 1, 0x81, 0x83])
            annex = (b'\x50' + bytes(rnd.getrandbits(8) for _ in range(rnd.choice([0, 1, 21, 48, 49, 50, 51, 100, 253])))) if rnd.random() < 0.4 else None

            def cs(n):
                return 1 if n < 253 else 3

            def budget(n):
                scr = 34 + 3 * (n - 1) - (n - 1) + 1          # <32-byte key> + (2DUP CHECKSIGVERIFY)*(n-1) + CHECKSIG
                items = [64 + (1 if sht else 0), scr, 33 + 32 * depth] + ([len(annex)] if annex else [])
                return 50 + cs(len(items)) + sum(cs(x) + x for x in items)
            n = 1
            while 50 * (n + 1) <= budget(n + 1):
                n += 1
            over = rnd.random() < 0.3 and allow_invalid     # (the draw happens either way: same transactions for every caller)
            n = n + 1 if over else (n if rnd.random() < 0.7 else max(1, n - 1))
            leaf_script = P(k[1].x) + b'\x6e\xad' * (n - 1) + b'\xac'
            meta['leafkind'] = 'sigreuse'
            meta.update(pre_sht=sht, pre_annex=annex, nchecks=n, over_budget=over)
        leafver = 0xc0
        if typ == 'p2tr-script' and rnd.random() < 0.06:
            leafver = rnd.choice([0xc2, 0x50 & 0xfe, 0xfe])
            meta['leafkind'] = 'unknown-leaf-version'
        leaf = V.tapleaf(leafver, leaf_script)
        path = [bytes(rnd.getrandbits(8) for _ in range(32)) for _ in range(depth)]
        root = leaf
        for n_ in path:
            root = secp.tagged('TapBranch', root + n_ if root < n_ else n_ + root)
        q, par = secp.taproot_tweak_pub(k[0].x, root)
        spk = b'\x51\x20' + q
        meta.update(leaf_script=leaf_script, leaf=leaf, path=path, root=root, par=par, leafver=leafver)
    else:
        raise ValueError(typ)
    if allow_invalid and typ in ('p2sh-p2wpkh', 'p2sh-p2wsh') and rnd.random() < 0.12:
        # NOT pay-to-script-hash, only similar: the template is exactly HASH160 <20 bytes> EQUAL. Spending such an output with the witness of the
        # wrapped program is invalid (a witness where none is expected) - whatever the signatures say
        spk = rnd.choice([spk + b'\x61', spk[:-1], spk[:-1] + b'\x88\x51', b'\xa9\x4c\x14' + spk[2:], spk + b'\x51', b'\x61' + spk])
        meta['not_quite_p2sh'] = True
    fund, pos = mk_funding(rnd, spk, value)
    tx, idx, decoy = mk_spending(rnd, fund, pos, ninputs, same_fund_decoy)
    vin = tx.vin[idx]
    spent_all = [dict(value=value, spk=spk) if i == idx else dict(value=rnd.randrange(1, 10 ** 8), spk=b'\x51') for i in range(len(tx.vin))]
    if decoy is not None:
        spent_all[decoy] = dict(fund.vout[tx.vin[decoy]['n']])
    if typ == 'p2pk':
        vin['script'] = P(ecdsa(k[0], reftx.sighash_legacy(tx, idx, spk, ht), ht))
    elif typ == 'p2pkh':
        vin['script'] = P(ecdsa(k[0], reftx.sighash_legacy(tx, idx, spk, ht), ht)) + P(k[0].pub)
    elif typ == 'multisig':
        h = reftx.sighash_legacy(tx, idx, spk, ht)
        vin['script'] = b'\x00' + P(ecdsa(k[0], h, ht)) + P(ecdsa(k[2], h, ht))
    elif typ == 'p2sh-multisig':
        h = reftx.sighash_legacy(tx, idx, ms, ht)
        vin['script'] = b'\x00' + P(ecdsa(k[1], h, ht)) + P(ecdsa(k[2], h, ht)) + P(ms)
    elif typ == 'p2sh-script':
        vin['script'] = b''.join(num_push(a) for a in aargs) + P(ascript)
    elif typ in ('p2wpkh', 'p2sh-p2wpkh'):
        sc = b'\x76\xa9\x14' + h160(k[0].pub) + b'\x88\xac'
        vin['wit'] = [ecdsa(k[0], reftx.sighash_v0(tx, idx, sc, value, ht), ht), k[0].pub]
        if typ.startswith('p2sh'):
            vin['script'] = P(redeem)
    elif typ in ('p2wsh', 'p2sh-p2wsh'):
        h = reftx.sighash_v0(tx, idx, ms, value, ht)
        vin['wit'] = [b'', ecdsa(k[0], h, ht), ecdsa(k[1], h, ht), ms]
        if typ.startswith('p2sh'):
            vin['script'] = P(redeem)
    elif typ == 'p2wsh-script':
        vin['wit'] = list(aargs) + [ascript]
    elif typ == 'bare-script':
        vin['script'] = bare_sig
    elif typ == 'p2wsh-codesep':
        after = cs_script[cs_script.index(b'\xab', 35) + 1:]
        h1 = reftx.sighash_v0(tx, idx, cs_script, value, ht)
        h2 = reftx.sighash_v0(tx, idx, after, value, ht)
        vin['wit'] = [ecdsa(k[1], h2, ht), ecdsa(k[0], h1, ht), cs_script]
    elif typ == 'p2tr-key':
        sht = rnd.choice([0, 0, 1, 2, 3, 0x81, 0x83])
        annex = (b'\x50' + bytes(rnd.getrandbits(8) for _ in range(rnd.randint(0, 5)))) if rnd.random() < 0.25 else None
        d = secp.taproot_tweak_sec(k[0].d, meta['root'])
        h = reftx.sighash_taproot(tx, idx, spent_all, sht, annex, None)
        if h is None:
            sht = 0
            h = reftx.sighash_taproot(tx, idx, spent_all, sht, annex, None)
        sig = secp.schnorr_sign(d, h) + (bytes([sht]) if sht else b'')
        vin['wit'] = [sig] + ([annex] if annex else [])
        meta.update(annex=annex)
    elif typ == 'p2tr-script':
        sht = rnd.choice([0, 0, 1, 2, 3, 0x81, 0x83])
        # (an annex is not a stack element: it may be longer than 520 bytes, and it does not count towards the 1000 initial stack items)
        annex = (b'\x50' + bytes(rnd.getrandbits(8) for _ in range(rnd.choice([0, 1, 2, 3, 4, 5, 5, 521, 600])))) if rnd.random() < 0.3 else None
        if 'pre_sht' in meta:
            sht, annex = meta['pre_sht'], meta['pre_annex']
        ls = meta['leaf_script']
        csp = 0xffffffff
        for n_, e in enumerate(R.decode(ls)):
            if e[0] == 0xab:
                csp = n_

        def ssig(key):
            hh = reftx.sighash_taproot(tx, idx, spent_all, sht, annex, meta['leaf'], csp)
            if hh is None:
                hh = reftx.sighash_taproot(tx, idx, spent_all, 0, annex, meta['leaf'], csp)
                return secp.schnorr_sign(key.d, hh)
            return secp.schnorr_sign(key.d, hh) + (bytes([sht]) if sht else b'')
        control = bytes([meta['leafver'] | meta['par']]) + k[0].x + b''.join(meta['path'])
        lk = meta['leafkind']
        if lk in ('checksig', 'checksigverify', 'codesep', 'sigreuse'):
            args = [ssig(k[1])]
        elif lk == 'checksigadd':
            args = [ssig(k[2]), ssig(k[1])]
        elif lk == 'keyless':
            args = list(aargs)
        else:
            args = [b'\x01']
        vin['wit'] = args + [ls, control] + ([annex] if annex else [])
        meta.update(annex=annex, csp=csp)
    return dict(tx=tx, fund=fund, idx=idx, pos=pos, type=typ, value=value, spk=spk, spent_all=spent_all, meta=meta, keys=k, decoy=decoy)


def num_push(b):
    """minimal push of a script-number encoding"""
    if len(b) == 0:
        return b'\x00'
    if len(b) == 1 and 1 <= b[0] <= 16:
        return bytes([0x50 + b[0]])
    if b == b'\x81':
        return b'\x4f'
    return P(b)


def flip(b, rnd):
    if not b:
        return b'\x01'
    i = rnd.randrange(len(b))
    return b[:i] + bytes([b[i] ^ (1 << rnd.randrange(8))]) + b[i + 1:]


CORR = ['none', 'none', 'none', 'scriptsig_ops', 'scriptsig_ops', 'wrap_p2sh', 'sigbit', 'amount', 'output', 'sequence', 'locktime', 'drop_wit', 'extra_wit', 'empty_wit', 'proghash', 'control', 'wrong_key', 'scriptsig_junk', 'witscript_bit', 'wit_shape', 'tiny_scriptsig', 'spk_shape']


def fix_txid(c):
    c['tx'].vin[c['idx']]['txid'] = c['fund'].txid()
    if c.get('decoy') is not None:
        c['tx'].vin[c['decoy']]['txid'] = c['fund'].txid()


def corrupt(c, kind, rnd):
    """apply one corruption in place; returns the kind actually applied"""
    tx, fund, idx = c['tx'], c['fund'], c['idx']
    vin = tx.vin[idx]
    typ = c['type']
    if kind == 'sigbit':
        if vin['wit']:
            cands = [j for j, w in enumerate(vin['wit']) if len(w) >= 64 and (w[0] == 0x30 or len(w) in (64, 65))]
            if not cands:
                return 'none'
            j = rnd.choice(cands)
            w = vin['wit'][j]
            vin['wit'][j] = flip(w[:-1], rnd) + w[-1:]
        else:
            ops = R.decode(vin['script'])
            cands = [e for e in ops if e is not None and e[1] and len(e[1]) >= 60 and e[1][0] == 0x30]
            if not cands:
                return 'none'
            e = rnd.choice(cands)
            start = e[2] - len(e[1])
            pos = start + 4 + rnd.randrange(len(e[1]) - 6)
            s = bytearray(vin['script'])
            s[pos] ^= 1 << rnd.randrange(8)
            vin['script'] = bytes(s)
    elif kind == 'amount':
        fund.vout[c['pos']]['value'] += 1
        fix_txid(c)
    elif kind == 'output':
        tx.vout[0]['value'] += 1
    elif kind == 'sequence':
        vin['seq'] ^= 1
    elif kind == 'locktime':
        tx.locktime ^= 1
    elif kind == 'drop_wit' and vin['wit']:
        vin['wit'] = vin['wit'][1:]
    elif kind == 'extra_wit' and vin['wit']:
        vin['wit'] = [b'\x01'] + vin['wit']
    elif kind == 'empty_wit' and vin['wit']:
        vin['wit'] = []
    elif kind == 'proghash' and typ not in ('p2pk', 'multisig', 'bare-script'):
        s = bytearray(fund.vout[c['pos']]['spk'])
        s[-3] ^= 1
        fund.vout[c['pos']]['spk'] = bytes(s)
        fix_txid(c)
    elif kind == 'control' and typ == 'p2tr-script':
        j = len(vin['wit']) - (2 if c['meta'].get('annex') else 1)
        vin['wit'][j] = flip(vin['wit'][j], rnd)
    elif kind == 'wrong_key' and typ in ('p2pkh', 'p2wpkh', 'p2sh-p2wpkh'):
        other = Key(rnd)
        if other.pub == c['keys'][0].pub:
            return 'none'
        if vin['wit']:
            vin['wit'][1] = other.pub
        else:
            ops = R.decode(vin['script'])
            vin['script'] = P(ops[0][1]) + P(other.pub)
    elif kind == 'scriptsig_junk' and typ in ('p2wpkh', 'p2wsh', 'p2wsh-script', 'p2wsh-codesep', 'p2tr-key', 'p2tr-script'):
        vin['script'] = b'\x51'
    elif kind == 'witscript_bit' and typ in ('p2wsh', 'p2wsh-script', 'p2wsh-codesep', 'p2sh-p2wsh'):
        vin['wit'][-1] = flip(vin['wit'][-1], rnd)
    elif kind == 'tiny_scriptsig' and not vin['wit'] and typ in ('p2pk', 'p2pkh', 'multisig', 'p2sh-multisig', 'p2sh-script'):
        # a very short scriptSig in front of a long scriptPubKey / redeem script (the script storage switches from inline to heap)
        vin['script'] = rnd.choice([b'\x00', b'\x51', b'\x00\x00', b''])
        if typ.startswith('p2sh'):
            ops = R.decode(c.get('_orig_script', b'')) if False else None
    elif kind == 'scriptsig_ops' and (not vin['wit'] or typ.startswith('p2sh')) and typ != 'bare-script':
        # operations / extra pushes / other push forms in the scriptSig of a legacy, P2SH or P2SH-wrapped segwit spend: net-neutral operations
        # (fine for a bare / P2PKH output, SIG_PUSHONLY for P2SH), an extra item below (fine unless CLEANSTACK), an extra item on top (the redeem script is
        # no longer the last push), the redeem script pushed with OP_PUSHDATA1 (a P2SH-wrapped witness program demands exactly one canonical push), alt stack
        # and conditional residue
        ss = vin['script']
        how = rnd.choice([0, 1, 2, 3, 4, 4, 4, 5, 6, 7, 8, 8, 8, 9, 9])
        if how >= 8:
            # an undecodable scriptSig: a push that runs past the end (alone, or after the regular content)
            vin['script'] = (ss if how == 9 else b'') + rnd.choice([b'\x05\xaa', b'\x4c', b'\x4d\xff', b'\x4e\x01\x00', b'\x4b'])
        elif how == 0:
            vin['script'] = b'\x51\x75' + ss
        elif how == 1:
            vin['script'] = ss + b'\x61'
        elif how == 2:
            vin['script'] = b'\x51' + ss
        elif how == 3:
            vin['script'] = ss + b'\x51'
        elif how == 4:
            ops = R.decode(ss)
            if ops and ops[-1] is not None and ops[-1][1] is not None and 1 < len(ops[-1][1]) <= 75:
                last = ops[-1][1]
                vin['script'] = ss[:len(ss) - len(P(last))] + b'\x4c' + bytes([len(last)]) + last
            else:
                vin['script'] = b'\x61' + ss
        elif how == 5:
            vin['script'] = b'\x51\x6b' + ss
        elif how == 6:
            vin['script'] = b'\x51\x63' + ss + b'\x68'
        else:
            vin['script'] = b'\x51\x63' + ss
    elif kind == 'wrap_p2sh' and vin['wit'] and not vin['script']:
        # a native witness output re-wrapped in pay-to-script-hash: fine for version 0 (the signatures do not commit to the wrapping), an UNKNOWN witness
        # program for version 1 (BIP341 applies to native outputs only): anyone-can-spend unless discouraged, and not a supported output type
        spk0 = fund.vout[c['pos']]['spk']
        fund.vout[c['pos']]['spk'] = b'\xa9\x14' + h160(spk0) + b'\x87'
        vin['script'] = P(spk0)
        fix_txid(c)
    elif kind == 'spk_shape':
        # structurally odd scriptPubKey in the funding transaction: wrong push lengths inside P2SH / witness-program shapes
        spk = bytearray(fund.vout[c['pos']]['spk'])
        if len(spk) >= 3:
            which = rnd.randrange(4)
            if which == 0:
                spk[1] = rnd.choice([0, 1, 19, 21, 31, 33, 75])          # push length byte
                spk = spk[:2] + spk[2:2 + spk[1]] + (spk[-1:] if spk[0] == 0xa9 else b'')
            elif which == 1:
                spk = spk[:len(spk) // 2]
            elif which == 2:
                spk = spk + b'\x00'
            else:
                spk[0] = rnd.choice([0x00, 0x51, 0x52, 0x60, 0xa9, 0x4f])
        fund.vout[c['pos']]['spk'] = bytes(spk)
        fix_txid(c)
    elif kind == 'wit_shape' and vin['wit']:
        # unusual witness stack shapes: a lone annex-tagged item, only empty items, annex-tagged items in every position, a single huge item ...
        shape = rnd.randrange(8)
        a50 = b'\x50' + bytes(rnd.getrandbits(8) for _ in range(rnd.choice([0, 1, 31, 63, 64])))
        if shape == 0:
            vin['wit'] = [a50]
        elif shape == 1:
            vin['wit'] = [b'']
        elif shape == 2:
            vin['wit'] = [b'', b'']
        elif shape == 3:
            vin['wit'] = vin['wit'] + [a50]
        elif shape == 4:
            vin['wit'] = [a50, a50]
        elif shape == 5:
            vin['wit'] = [a50] + vin['wit'][1:]
        elif shape == 6:
            vin['wit'] = vin['wit'][-1:]
        else:
            vin['wit'] = [vin['wit'][-1], a50]
    else:
        return 'none'
    return kind
