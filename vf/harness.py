"""E2 client: talks to the native harness `vh` (one request line -> one JSON reply on fd 3).

A crash of the tree's code kills the harness; the client reports it as the observed outcome of that case
({'crash': <signal>} or {'exit': <status>}) and restarts the process.
"""
import json
import os
import select
import signal
import subprocess

from . import build


class Harness:
    def __init__(self, variant='plain', path=None, timeout=30.0, env=None):
        self.path = path or os.path.join(build.ensure(variant, quiet=True), 'vh')
        self.timeout = timeout
        self.p = None
        self.restarts = 0
        self.env = dict(os.environ)
        self.env.setdefault('ASAN_OPTIONS', 'detect_leaks=0:abort_on_error=1:alloc_dealloc_mismatch=1')
        if env:
            self.env.update(env)
        self.last_stderr = b''

    def _start(self):
        r, w = os.pipe()
        self.errfile = None
        stderr = subprocess.DEVNULL
        if self.env.get('VH_KEEP_STDERR'):
            stderr = subprocess.PIPE
        self.p = subprocess.Popen([self.path], stdin=subprocess.PIPE, stdout=subprocess.DEVNULL, stderr=stderr,
                                  pass_fds=(w, 3), env=self.env, preexec_fn=lambda: (os.dup2(w, 3) if w != 3 else None), close_fds=True)
        os.close(w)
        self.rfd = r
        self.buf = b''

    def close(self):
        if self.p:
            try:
                self.p.stdin.close()
            except Exception:
                pass
            try:
                self.p.kill()
            except Exception:
                pass
            self.p.wait()
            os.close(self.rfd)
            self.p = None

    def _readline(self):
        while b'\n' not in self.buf:
            rl, _, _ = select.select([self.rfd], [], [], self.timeout)
            if not rl:
                return 'timeout'
            chunk = os.read(self.rfd, 1 << 20)
            if not chunk:
                return None
            self.buf += chunk
        line, self.buf = self.buf.split(b'\n', 1)
        return line

    def req(self, line):
        """line: str without newline. returns dict"""
        if self.p is None:
            self._start()
        try:
            self.p.stdin.write(line.encode() + b'\n')
            self.p.stdin.flush()
        except BrokenPipeError:
            pass
        r = self._readline()
        if r == 'timeout':
            self.close()
            self.restarts += 1
            return {'timeout': True}
        if r is None:
            try:
                self.p.stdin.close()
            except Exception:
                pass
            rc = self.p.wait()
            if self.p.stderr:
                try:
                    self.last_stderr = self.p.stderr.read()[-4000:]
                except Exception:
                    pass
            os.close(self.rfd)
            self.p = None
            self.restarts += 1
            if rc < 0:
                return {'crash': -rc, 'signame': signal.Signals(-rc).name}
            return {'exit': rc}
        return json.loads(r)


def hx(b):
    return b.hex() if b else '-'


def hxlist(items):
    return ','.join(hx(x) for x in items)


def kvline(cmd, **kw):
    parts = [cmd]
    for k, v in kw.items():
        if v is None:
            continue
        if isinstance(v, (bytes, bytearray)):
            v = bytes(v).hex() or '-'
        elif isinstance(v, (list, tuple)):
            if not v:
                continue
            v = hxlist(v)
        parts.append('%s=%s' % (k, v))
    return ' '.join(parts)
