"""E2 client: talks to the native harness `vh` (one request line -> one JSON reply on fd 3).

A crash of the tree's code kills the harness; the client reports it as the observed outcome of that case
({'crash': <signal>} or {'exit': <status>}) and restarts the process.
"""
import json
import os
import select
import signal
import subprocess

from . import build


class Harness:
    def __init__(self, variant='plain', path=None, timeout=30.0, env=None):
        self.path = path or os.path.join(build.ensure(variant, quiet=True), 'vh')
        self.variant = variant
        self.timeout = timeout
        # the requests served by the CURRENT process: when the process dies the failure may depend on state the tree's code carried over from
        # earlier requests (a leaked counter, a cache); the history is handed out with the death report so that it can be replayed as one unit
        self.history = []
        self.history_bytes = 0
        self.p = None
        self.restarts = 0
        self.env = dict(os.environ)
        self.env.setdefault('ASAN_OPTIONS', 'detect_leaks=0:abort_on_error=1:alloc_dealloc_mismatch=1')
        if env:
            self.env.update(env)
        self.last_stderr = b''

    def _start(self):
        r, w = os.pipe()
        self.errfile = None
        stderr = subprocess.DEVNULL
        if self.env.get('VH_KEEP_STDERR'):
            stderr = subprocess.PIPE
        self.p = subprocess.Popen([self.path], stdin=subprocess.PIPE, stdout=subprocess.DEVNULL, stderr=stderr,
                                  pass_fds=(w, 3), env=self.env, preexec_fn=lambda: (os.dup2(w, 3) if w != 3 else None), close_fds=True)
        os.close(w)
        self.rfd = r
        self.buf = b''
        self.history = []
        self.history_bytes = 0

    def close(self):
        if self.p:
            try:
                self.p.stdin.close()
            except Exception:
                pass
            try:
                self.p.kill()
            except Exception:
                pass
            self.p.wait()
            os.close(self.rfd)
            self.p = None

    def _readline(self):
        while b'\n' not in self.buf:
            rl, _, _ = select.select([self.rfd], [], [], self.timeout)
            if not rl:
                return 'timeout'
            chunk = os.read(self.rfd, 1 << 20)
            if not chunk:
                return None
            self.buf += chunk
        line, self.buf = self.buf.split(b'\n', 1)
        return line

    def req(self, line):
        """line: str without newline. returns dict"""
        if self.p is None:
            self._start()
        self.history.append(line)
        self.history_bytes += len(line)
        while self.history_bytes > (8 << 20) and len(self.history) > 1:
            self.history_bytes -= len(self.history.pop(0))
        try:
            self.p.stdin.write(line.encode() + b'\n')
            self.p.stdin.flush()
        except BrokenPipeError:
            pass
        r = self._readline()
        if r == 'timeout':
            self.close()
            self.restarts += 1
            return {'timeout': True}
        if r is None:
            try:
                self.p.stdin.close()
            except Exception:
                pass
            rc = self.p.wait()
            if self.p.stderr:
                try:
                    self.last_stderr = self.p.stderr.read()[-4000:]
                except Exception:
                    pass
            os.close(self.rfd)
            self.p = None
            self.restarts += 1
            hist = dict(history=list(self.history), variant=self.variant)
            if rc < 0:
                return dict(hist, crash=-rc, signame=signal.Signals(-rc).name)
            return dict(hist, exit=rc)
        return json.loads(r)


def replay_history(lines, variant='plain'):
    """send the recorded requests to a fresh harness process; returns the death report of the process, or None when it survives all of them"""
    h = Harness(variant)
    try:
        for l in lines:
            r = h.req(l)
            if 'crash' in r or 'exit' in r:
                return {k: v for k, v in r.items() if k != 'history'}
            if 'timeout' in r:
                return None
        return None
    finally:
        h.close()


def hx(b):
    return b.hex() if b else '-'


def hxlist(items):
    return ','.join(hx(x) for x in items)


def kvline(cmd, **kw):
    parts = [cmd]
    for k, v in kw.items():
        if v is None:
            continue
        if isinstance(v, (bytes, bytearray)):
            v = bytes(v).hex() or '-'
        elif isinstance(v, (list, tuple)):
            if not v:
                continue
            v = hxlist(v)
        parts.append('%s=%s' % (k, v))
    return ' '.join(parts)
