"""Token -> bytes model of the script assembler (btcc / Value::parse_args + Value::serialize), from the documented grammar:
opcode name -> that byte; decimal -> minimal push of the number; hex literal -> the minimal-form push that leaves exactly
those bytes on the stack; [body] -> that same push of compile(body)."""
from . import script as R
from .opcodes import BY_NAME


def minimal_push(data):
    """the unique push that CheckMinimalPush accepts and that leaves exactly `data` on the stack"""
    n = len(data)
    if n == 0:
        return b'\x00'
    if n == 1 and 1 <= data[0] <= 16:
        return bytes([0x50 + data[0]])
    if n == 1 and data[0] == 0x81:
        return b'\x4f'
    return R.push_enc(data)


# a token is one of
#   ('op', name_text, opcode)        name as written (with or without OP_, or OP_xNN / xNN)
#   ('int', n)                       canonical decimal
#   ('hex', bytes, '0x' or '')       hex literal
#   ('br', [tokens], separators...)  bracketed sub-script
def compile_tokens(tokens):
    out = b''
    for t in tokens:
        out += compile_token(t)
    return out


def compile_token(t):
    k = t[0]
    if k == 'op':
        return bytes([t[2]])
    if k == 'int':
        return minimal_push(R.num_enc(t[1]))
    if k == 'hex':
        return minimal_push(t[1])
    if k == 'br':
        return minimal_push(compile_tokens(t[1]))
    raise ValueError(k)


def render(t, seps=None):
    """text of a token as given to the tool"""
    k = t[0]
    if k == 'op':
        return t[1]
    if k == 'int':
        return str(t[1])
    if k == 'hex':
        return t[2] + (t[1].hex().upper() if len(t) > 3 and t[3] else t[1].hex())
    if k == 'br':
        sep = t[2] if len(t) > 2 else [' ']
        parts = [render(x) for x in t[1]]
        s = '['
        for i, p in enumerate(parts):
            if i:
                sp = sep[i % len(sep)]
                if sp == 'ADJ':
                    # nothing at all between a closing bracket and what follows it (a bracket ends its token); a blank elsewhere
                    sp = '' if parts[i - 1].endswith(']') else ' '
                s += sp
            s += p
        return s + ']'
    raise ValueError(k)


def ops_of(tokens):
    """the operation sequence the statement says the output must decode to: list of (opcode|None, pushed bytes|None)"""
    seq = []
    for t in tokens:
        if t[0] == 'op':
            seq.append(('op', t[2]))
        elif t[0] == 'int':
            seq.append(('push', R.num_enc(t[1])))
        elif t[0] == 'hex':
            seq.append(('push', t[1]))
        else:
            seq.append(('push', compile_tokens(t[1])))
    return seq


def decoded_ops(script):
    """decode a script into the same shape: pushes (incl. OP_0 / OP_1NEGATE / OP_1..16) report the bytes they leave on the stack"""
    seq = []
    for e in R.decode(script):
        if e is None:
            return None
        op, data, _ = e
        if data is not None:
            seq.append(('push', data, op))
        elif op == 0x4f or 0x51 <= op <= 0x60:
            seq.append(('push', R.num_enc(op - 0x50), op))
        else:
            seq.append(('op', op))
    return seq
