"""base58 / base58check reference codec (written from the Bitcoin wiki description)."""
import hashlib

ALPHABET = '123456789ABCDEFGHJKLMNPQRSTUVWXYZabcdefghijkmnopqrstuvwxyz'


def encode(b):
    n = int.from_bytes(b, 'big')
    out = ''
    while n:
        n, r = divmod(n, 58)
        out = ALPHABET[r] + out
    pad = len(b) - len(b.lstrip(b'\x00'))
    return '1' * pad + out


def decode(s):
    n = 0
    for ch in s:
        i = ALPHABET.find(ch)
        if i < 0:
            return None
        n = n * 58 + i
    pad = len(s) - len(s.lstrip('1'))
    body = n.to_bytes((n.bit_length() + 7) // 8, 'big') if n else b''
    return b'\x00' * pad + body


def checksum(b):
    return hashlib.sha256(hashlib.sha256(b).digest()).digest()[:4]


def encode_check(b):
    return encode(b + checksum(b))


def decode_check(s):
    raw = decode(s)
    if raw is None or len(raw) < 4:
        return None
    body, chk = raw[:-4], raw[-4:]
    if checksum(body) != chk:
        return None
    return body
