"""BIP173 / BIP350 reference codec (written from the BIPs)."""
CHARSET = 'qpzry9x8gf2tvdw0s3jn54khce6mua7l'
BECH32_CONST = 1
BECH32M_CONST = 0x2bc830a3


def polymod(values):
    gen = [0x3b6a57b2, 0x26508e6d, 0x1ea119fa, 0x3d4233dd, 0x2a1462b3]
    chk = 1
    for v in values:
        b = chk >> 25
        chk = (chk & 0x1ffffff) << 5 ^ v
        for i in range(5):
            chk ^= gen[i] if ((b >> i) & 1) else 0
    return chk


def hrp_expand(hrp):
    return [ord(x) >> 5 for x in hrp] + [0] + [ord(x) & 31 for x in hrp]


def create_checksum(hrp, data, const):
    values = hrp_expand(hrp) + list(data)
    pm = polymod(values + [0, 0, 0, 0, 0, 0]) ^ const
    return [(pm >> 5 * (5 - i)) & 31 for i in range(6)]


def encode(hrp, data, const):
    combined = list(data) + create_checksum(hrp, data, const)
    return hrp + '1' + ''.join(CHARSET[d] for d in combined)


def decode(s):
    """returns (hrp, data5, 'bech32'|'bech32m') or None"""
    if any(ord(x) < 33 or ord(x) > 126 for x in s):
        return None
    if s.lower() != s and s.upper() != s:
        return None
    s = s.lower()
    pos = s.rfind('1')
    if pos < 1 or pos + 7 > len(s) or len(s) > 90:
        return None
    if not all(x in CHARSET for x in s[pos + 1:]):
        return None
    hrp = s[:pos]
    data = [CHARSET.find(x) for x in s[pos + 1:]]
    pm = polymod(hrp_expand(hrp) + data)
    if pm == BECH32_CONST:
        enc = 'bech32'
    elif pm == BECH32M_CONST:
        enc = 'bech32m'
    else:
        return None
    return hrp, data[:-6], enc


def convertbits(data, frombits, tobits, pad=True):
    acc = 0
    bits = 0
    ret = []
    maxv = (1 << tobits) - 1
    max_acc = (1 << (frombits + tobits - 1)) - 1
    for value in data:
        if value < 0 or (value >> frombits):
            return None
        acc = ((acc << frombits) | value) & max_acc
        bits += frombits
        while bits >= tobits:
            bits -= tobits
            ret.append((acc >> bits) & maxv)
    if pad:
        if bits:
            ret.append((acc << (tobits - bits)) & maxv)
    elif bits >= frombits or ((acc << (tobits - bits)) & maxv):
        return None
    return ret


def segwit_decode(addr):
    """returns (hrp, witver, program bytes, encoding) or None (checks the BIP350 version/encoding rule)"""
    d = decode(addr)
    if d is None:
        return None
    hrp, data, enc = d
    if not data:
        return None
    prog = convertbits(data[1:], 5, 8, False)
    if prog is None or len(prog) < 2 or len(prog) > 40 or data[0] > 16:
        return None
    if data[0] == 0 and enc != 'bech32':
        return None
    if data[0] != 0 and enc != 'bech32m':
        return None
    return hrp, data[0], bytes(prog), enc


def segwit_encode(hrp, witver, prog):
    const = BECH32_CONST if witver == 0 else BECH32M_CONST
    return encode(hrp, [witver] + convertbits(prog, 8, 5), const)
