"""Opcode names (Bitcoin wiki / Core's GetOpName), written out independently of the tree."""
NAMES = {
    0x00: 'OP_0', 0x4c: 'OP_PUSHDATA1', 0x4d: 'OP_PUSHDATA2', 0x4e: 'OP_PUSHDATA4', 0x4f: 'OP_1NEGATE', 0x50: 'OP_RESERVED',
    0x61: 'OP_NOP', 0x62: 'OP_VER', 0x63: 'OP_IF', 0x64: 'OP_NOTIF', 0x65: 'OP_VERIF', 0x66: 'OP_VERNOTIF', 0x67: 'OP_ELSE', 0x68: 'OP_ENDIF',
    0x69: 'OP_VERIFY', 0x6a: 'OP_RETURN', 0x6b: 'OP_TOALTSTACK', 0x6c: 'OP_FROMALTSTACK', 0x6d: 'OP_2DROP', 0x6e: 'OP_2DUP', 0x6f: 'OP_3DUP',
    0x70: 'OP_2OVER', 0x71: 'OP_2ROT', 0x72: 'OP_2SWAP', 0x73: 'OP_IFDUP', 0x74: 'OP_DEPTH', 0x75: 'OP_DROP', 0x76: 'OP_DUP', 0x77: 'OP_NIP',
    0x78: 'OP_OVER', 0x79: 'OP_PICK', 0x7a: 'OP_ROLL', 0x7b: 'OP_ROT', 0x7c: 'OP_SWAP', 0x7d: 'OP_TUCK', 0x7e: 'OP_CAT', 0x7f: 'OP_SUBSTR',
    0x80: 'OP_LEFT', 0x81: 'OP_RIGHT', 0x82: 'OP_SIZE', 0x83: 'OP_INVERT', 0x84: 'OP_AND', 0x85: 'OP_OR', 0x86: 'OP_XOR', 0x87: 'OP_EQUAL',
    0x88: 'OP_EQUALVERIFY', 0x89: 'OP_RESERVED1', 0x8a: 'OP_RESERVED2', 0x8b: 'OP_1ADD', 0x8c: 'OP_1SUB', 0x8d: 'OP_2MUL', 0x8e: 'OP_2DIV',
    0x8f: 'OP_NEGATE', 0x90: 'OP_ABS', 0x91: 'OP_NOT', 0x92: 'OP_0NOTEQUAL', 0x93: 'OP_ADD', 0x94: 'OP_SUB', 0x95: 'OP_MUL', 0x96: 'OP_DIV',
    0x97: 'OP_MOD', 0x98: 'OP_LSHIFT', 0x99: 'OP_RSHIFT', 0x9a: 'OP_BOOLAND', 0x9b: 'OP_BOOLOR', 0x9c: 'OP_NUMEQUAL', 0x9d: 'OP_NUMEQUALVERIFY',
    0x9e: 'OP_NUMNOTEQUAL', 0x9f: 'OP_LESSTHAN', 0xa0: 'OP_GREATERTHAN', 0xa1: 'OP_LESSTHANOREQUAL', 0xa2: 'OP_GREATERTHANOREQUAL', 0xa3: 'OP_MIN',
    0xa4: 'OP_MAX', 0xa5: 'OP_WITHIN', 0xa6: 'OP_RIPEMD160', 0xa7: 'OP_SHA1', 0xa8: 'OP_SHA256', 0xa9: 'OP_HASH160', 0xaa: 'OP_HASH256',
    0xab: 'OP_CODESEPARATOR', 0xac: 'OP_CHECKSIG', 0xad: 'OP_CHECKSIGVERIFY', 0xae: 'OP_CHECKMULTISIG', 0xaf: 'OP_CHECKMULTISIGVERIFY',
    0xb0: 'OP_NOP1', 0xb1: 'OP_CHECKLOCKTIMEVERIFY', 0xb2: 'OP_CHECKSEQUENCEVERIFY', 0xb3: 'OP_NOP4', 0xb4: 'OP_NOP5', 0xb5: 'OP_NOP6',
    0xb6: 'OP_NOP7', 0xb7: 'OP_NOP8', 0xb8: 'OP_NOP9', 0xb9: 'OP_NOP10', 0xba: 'OP_CHECKSIGADD',
}
for _i in range(1, 17):
    NAMES[0x50 + _i] = 'OP_%d' % _i
ALIASES = {'OP_FALSE': 0x00, 'OP_TRUE': 0x51}
BY_NAME = {v: k for k, v in NAMES.items()}
BY_NAME.update(ALIASES)


def name(op):
    return NAMES.get(op, 'OP_UNKNOWN')
