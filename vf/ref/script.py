"""E3 reference interpreter: written from Bitcoin Core's documented script semantics and the BIPs; shares no code with the tree."""
import hashlib

MAX_ELEM = 520; MAX_OPS = 201; MAX_STACK = 1000; MAX_SCRIPT = 10000; MAX_KEYS = 20
BASE, WITNESS_V0, TAPROOT, TAPSCRIPT = 0, 1, 2, 3

FLAGS = ['P2SH','STRICTENC','DERSIG','LOW_S','NULLDUMMY','SIGPUSHONLY','MINIMALDATA','DISCOURAGE_UPGRADABLE_NOPS',
         'CLEANSTACK','CHECKLOCKTIMEVERIFY','CHECKSEQUENCEVERIFY','WITNESS','DISCOURAGE_UPGRADABLE_WITNESS_PROGRAM',
         'MINIMALIF','NULLFAIL','WITNESS_PUBKEYTYPE','CONST_SCRIPTCODE','TAPROOT','DISCOURAGE_UPGRADABLE_TAPROOT_VERSION',
         'DISCOURAGE_OP_SUCCESS','DISCOURAGE_UPGRADABLE_PUBKEYTYPE']
F = {n: 1 << i for i, n in enumerate(FLAGS)}

ERR = dict(SCHNORR_SIG_SIZE='Invalid Schnorr signature size', SCHNORR_SIG_HASHTYPE='Invalid Schnorr signature hash type', SCHNORR_SIG='Invalid Schnorr signature',
 CLEANSTACK='Stack size must be exactly one after execution', WITNESS_PROGRAM_MISMATCH='Witness program hash mismatch',
 UNKNOWN='unknown error', EVAL_FALSE='Script evaluated without error but finished with a false/empty top stack element',
 VERIFY='Script failed an OP_VERIFY operation', EQUALVERIFY='Script failed an OP_EQUALVERIFY operation',
 CHECKMULTISIGVERIFY='Script failed an OP_CHECKMULTISIGVERIFY operation', CHECKSIGVERIFY='Script failed an OP_CHECKSIGVERIFY operation',
 NUMEQUALVERIFY='Script failed an OP_NUMEQUALVERIFY operation', SCRIPT_SIZE='Script is too big', PUSH_SIZE='Push value size limit exceeded',
 OP_COUNT='Operation limit exceeded', STACK_SIZE='Stack size limit exceeded', SIG_COUNT='Signature count negative or greater than pubkey count',
 PUBKEY_COUNT='Pubkey count negative or limit exceeded', BAD_OPCODE='Opcode missing or not understood', DISABLED_OPCODE='Attempted to use a disabled opcode',
 INVALID_STACK_OPERATION='Operation not valid with the current stack size', INVALID_ALTSTACK_OPERATION='Operation not valid with the current altstack size',
 OP_RETURN='OP_RETURN was encountered', UNBALANCED_CONDITIONAL='Invalid OP_IF construction', NEGATIVE_LOCKTIME='Negative locktime',
 UNSATISFIED_LOCKTIME='Locktime requirement not satisfied', SIG_HASHTYPE='Signature hash type missing or not understood', SIG_DER='Non-canonical DER signature',
 MINIMALDATA='Data push larger than necessary', SIG_HIGH_S='Non-canonical signature: S value is unnecessarily high',
 SIG_NULLDUMMY='Dummy CHECKMULTISIG argument must be zero', MINIMALIF='OP_IF/NOTIF argument must be minimal',
 SIG_NULLFAIL='Signature must be zero for failed CHECK(MULTI)SIG operation', DISCOURAGE_UPGRADABLE_NOPS='NOPx reserved for soft-fork upgrades',
 PUBKEYTYPE='Public key is neither compressed or uncompressed', WITNESS_PUBKEYTYPE='Using non-compressed keys in segwit',
 TAPSCRIPT_CHECKMULTISIG='OP_CHECKMULTISIG(VERIFY) is not available in tapscript', TAPSCRIPT_MINIMALIF='OP_IF/NOTIF argument must be minimal in tapscript',
 OP_CODESEPARATOR='Using OP_CODESEPARATOR in non-witness script', SIG_FINDANDDELETE='Signature is found in scriptCode',
 DISCOURAGE_UPGRADABLE_PUBKEYTYPE='Public key version reserved for soft-fork upgrades',
 TAPSCRIPT_VALIDATION_WEIGHT='Too much signature validation relative to witness weight',
)

class ScriptFail(Exception):
    def __init__(self, code): self.code = code
class NumErr(Exception): pass

def num_enc(n):
    if n == 0: return b''
    neg = n < 0; a = -n if neg else n; out = bytearray()
    while a: out.append(a & 0xff); a >>= 8
    if out[-1] & 0x80: out.append(0x80 if neg else 0)
    elif neg: out[-1] |= 0x80
    return bytes(out)

def num_minimal(b):
    if not b: return True
    if b[-1] & 0x7f: return True
    return len(b) > 1 and bool(b[-2] & 0x80)

def num_dec(b, minimal, maxlen=4):
    if len(b) > maxlen: raise NumErr('script number overflow')
    if minimal and not num_minimal(b): raise NumErr('non-minimally encoded script number')
    if not b: return 0
    m = int.from_bytes(b[:-1] + bytes([b[-1] & 0x7f]), 'little')
    return -m if b[-1] & 0x80 else m

def cast_bool(b):
    for i, c in enumerate(b):
        if c:
            return not (i == len(b) - 1 and c == 0x80)
    return False

def decode(script):
    """yield (opcode, push_or_None, next_pc); raises ScriptFail(BAD_OPCODE) lazily via a sentinel"""
    pc = 0; n = len(script); out = []
    while pc < n:
        op = script[pc]; pc += 1; data = None
        if op <= 0x4e:
            if op < 0x4c: sz = op
            elif op == 0x4c:
                if n - pc < 1: out.append(None); return out
                sz = script[pc]; pc += 1
            elif op == 0x4d:
                if n - pc < 2: out.append(None); return out
                sz = int.from_bytes(script[pc:pc+2], 'little'); pc += 2
            else:
                if n - pc < 4: out.append(None); return out
                sz = int.from_bytes(script[pc:pc+4], 'little'); pc += 4
            if n - pc < sz: out.append(None); return out
            data = bytes(script[pc:pc+sz]); pc += sz
        out.append((op, data, pc))
    return out

def has_valid_ops(script, max_opcode=0xba):
    for e in decode(script):
        if e is None: return False
        op, data, _ = e
        if op > max_opcode: return False
        if data is not None and len(data) > MAX_ELEM: return False
    return True

def minimal_push(data, op):
    if len(data) == 0: return op == 0
    if len(data) == 1 and 1 <= data[0] <= 16: return False
    if len(data) == 1 and data[0] == 0x81: return False
    if len(data) <= 75: return op == len(data)
    if len(data) <= 255: return op == 0x4c
    if len(data) <= 65535: return op == 0x4d
    return True

DISABLED = {0x7e,0x7f,0x80,0x81,0x83,0x84,0x85,0x86,0x8d,0x8e,0x95,0x96,0x97,0x98,0x99}

def sha256(b): return hashlib.sha256(b).digest()
def ripemd(b): return hashlib.new('ripemd160', b).digest()
def sha1(b): return hashlib.sha1(b).digest()

class NullChecker:
    def check_ecdsa(self, sig, key, scriptcode, sigversion): return False
    def check_schnorr(self, *a): return None
    def check_locktime(self, n): return False
    def check_sequence(self, n): return False

def valid_sig_encoding(sig):
    if len(sig) < 9 or len(sig) > 73: return False
    if sig[0] != 0x30: return False
    if sig[1] != len(sig) - 3: return False
    lenR = sig[3]
    if 5 + lenR >= len(sig): return False
    lenS = sig[5 + lenR]
    if lenR + lenS + 7 != len(sig): return False
    if sig[2] != 2: return False
    if lenR == 0: return False
    if sig[4] & 0x80: return False
    if lenR > 1 and sig[4] == 0 and not (sig[5] & 0x80): return False
    if sig[lenR + 4] != 2: return False
    if lenS == 0: return False
    if sig[lenR + 6] & 0x80: return False
    if lenS > 1 and sig[lenR + 6] == 0 and not (sig[lenR + 7] & 0x80): return False
    return True

N_ORDER = 0xFFFFFFFFFFFFFFFFFFFFFFFFFFFFFFFEBAAEDCE6AF48A03BBFD25E8CD0364141
def low_s(sig):  # sig incl. hashtype, already known valid DER
    lenR = sig[3]; lenS = sig[5 + lenR]
    s = int.from_bytes(sig[6 + lenR: 6 + lenR + lenS], 'big')
    return s <= N_ORDER // 2

def check_sig_encoding(sig, flags):
    if len(sig) == 0: return
    if flags & (F['DERSIG'] | F['LOW_S'] | F['STRICTENC']) and not valid_sig_encoding(sig): raise ScriptFail('SIG_DER')
    if flags & F['LOW_S']:
        if not low_s(sig): raise ScriptFail('SIG_HIGH_S')
    if flags & F['STRICTENC']:
        ht = sig[-1] & ~0x80
        if ht < 1 or ht > 3: raise ScriptFail('SIG_HASHTYPE')

def check_pubkey_encoding(key, flags, sv):
    def comp_or_uncomp(k):
        if len(k) < 33: return False
        if k[0] == 4: return len(k) == 65
        if k[0] in (2, 3): return len(k) == 33
        return False
    if flags & F['STRICTENC'] and not comp_or_uncomp(key): raise ScriptFail('PUBKEYTYPE')
    if flags & F['WITNESS_PUBKEYTYPE'] and sv == WITNESS_V0 and not (len(key) == 33 and key[0] in (2, 3)): raise ScriptFail('WITNESS_PUBKEYTYPE')

def push_enc(data):
    n = len(data)
    if n < 0x4c: return bytes([n]) + data
    if n <= 0xff: return bytes([0x4c, n]) + data
    if n <= 0xffff: return bytes([0x4d]) + n.to_bytes(2, 'little') + data
    return bytes([0x4e]) + n.to_bytes(4, 'little') + data

def find_and_delete(script, pat):
    if not pat: return script, 0
    res = bytearray(); found = 0; pc = 0; pc2 = 0; n = len(script)
    ops = None
    while True:
        res += script[pc2:pc]
        while n - pc >= len(pat) and script[pc:pc+len(pat)] == pat:
            pc += len(pat); found += 1
        pc2 = pc
        # GetOp
        if pc >= n: break
        d = decode(script[pc:])
        if not d or d[0] is None: break
        pc += d[0][2]
    if found:
        res += script[pc2:]
        return bytes(res), found
    return script, 0

class State:
    def __init__(self, stack, flags, sv, checker=None, allow_disabled=False):
        self.stack = [bytes(x) for x in stack]; self.alt = []; self.vf = []
        self.flags = flags; self.sv = sv; self.ck = checker or NullChecker(); self.z = allow_disabled
        self.nops = 0
        self.mock = set()
        self.execdata = {'annex': None, 'leaf': None, 'codesep': 0xffffffff, 'weight': None}
        self.opcode_pos = 0
    def snap(self):
        return ([x.hex() for x in self.stack], [x.hex() for x in self.alt], ''.join('1' if all(self.vf[:i+1]) else '0' for i in range(len(self.vf))))

def step(st, script, entry, codesep_start):
    """execute one decoded op; returns new codesep_start. raises ScriptFail / NumErr"""
    stack, alt, vf, flags, sv = st.stack, st.alt, st.vf, st.flags, st.sv
    minimal = bool(flags & F['MINIMALDATA'])
    if entry is None: raise ScriptFail('BAD_OPCODE')
    op, data, nxt = entry
    fexec = all(vf)
    if data is not None and len(data) > MAX_ELEM: raise ScriptFail('PUSH_SIZE')
    if sv in (BASE, WITNESS_V0):
        if op > 0x60:
            st.nops += 1
            if st.nops > MAX_OPS: raise ScriptFail('OP_COUNT')
    if op in DISABLED and not st.z: raise ScriptFail('DISABLED_OPCODE')
    if op == 0xab and sv == BASE and flags & F['CONST_SCRIPTCODE']: raise ScriptFail('OP_CODESEPARATOR')
    def need(n):
        if len(stack) < n: raise ScriptFail('INVALID_STACK_OPERATION')
    def num(b, maxlen=4): return num_dec(b, minimal, maxlen)
    if fexec and op <= 0x4e:
        if minimal and not minimal_push(data, op): raise ScriptFail('MINIMALDATA')
        stack.append(data)
    elif fexec or 0x63 <= op <= 0x68:
        if op in DISABLED:
            ext(st, op, minimal)
        elif op == 0x4f or 0x51 <= op <= 0x60:
            stack.append(num_enc(op - 0x50))
        elif op == 0x61: pass
        elif op == 0xb1:
            if flags & F['CHECKLOCKTIMEVERIFY']:
                need(1); n = num(stack[-1], 5)
                if n < 0: raise ScriptFail('NEGATIVE_LOCKTIME')
                if not st.ck.check_locktime(n): raise ScriptFail('UNSATISFIED_LOCKTIME')
        elif op == 0xb2:
            if flags & F['CHECKSEQUENCEVERIFY']:
                need(1); n = num(stack[-1], 5)
                if n < 0: raise ScriptFail('NEGATIVE_LOCKTIME')
                if not (n & (1 << 31)):
                    if not st.ck.check_sequence(n): raise ScriptFail('UNSATISFIED_LOCKTIME')
        elif op == 0xb0 or 0xb3 <= op <= 0xb9:
            if flags & F['DISCOURAGE_UPGRADABLE_NOPS']: raise ScriptFail('DISCOURAGE_UPGRADABLE_NOPS')
        elif op in (0x63, 0x64):
            val = False
            if fexec:
                if len(stack) < 1: raise ScriptFail('UNBALANCED_CONDITIONAL')
                v = stack[-1]
                if sv == TAPSCRIPT and (len(v) > 1 or (len(v) == 1 and v[0] != 1)): raise ScriptFail('TAPSCRIPT_MINIMALIF')
                if sv == WITNESS_V0 and flags & F['MINIMALIF'] and (len(v) > 1 or (len(v) == 1 and v[0] != 1)): raise ScriptFail('MINIMALIF')
                val = cast_bool(v)
                if op == 0x64: val = not val
                stack.pop()
            vf.append(val)
        elif op == 0x67:
            if not vf: raise ScriptFail('UNBALANCED_CONDITIONAL')
            vf[-1] = not vf[-1]
        elif op == 0x68:
            if not vf: raise ScriptFail('UNBALANCED_CONDITIONAL')
            vf.pop()
        elif op == 0x69:
            need(1)
            if cast_bool(stack[-1]): stack.pop()
            else: raise ScriptFail('VERIFY')
        elif op == 0x6a: raise ScriptFail('OP_RETURN')
        elif op == 0x6b: need(1); alt.append(stack.pop())
        elif op == 0x6c:
            if not alt: raise ScriptFail('INVALID_ALTSTACK_OPERATION')
            stack.append(alt.pop())
        elif op == 0x6d: need(2); del stack[-2:]
        elif op == 0x6e: need(2); stack.extend(stack[-2:])
        elif op == 0x6f: need(3); stack.extend(stack[-3:])
        elif op == 0x70: need(4); stack.extend(stack[-4:-2])
        elif op == 0x71: need(6); x = stack[-6:-4]; del stack[-6:-4]; stack.extend(x)
        elif op == 0x72: need(4); stack[-4:] = stack[-2:] + stack[-4:-2]
        elif op == 0x73:
            need(1)
            if cast_bool(stack[-1]): stack.append(stack[-1])
        elif op == 0x74: stack.append(num_enc(len(stack)))
        elif op == 0x75: need(1); stack.pop()
        elif op == 0x76: need(1); stack.append(stack[-1])
        elif op == 0x77: need(2); del stack[-2]
        elif op == 0x78: need(2); stack.append(stack[-2])
        elif op in (0x79, 0x7a):
            need(2); n = num(stack[-1]); n = max(min(n, 2**31 - 1), -2**31); stack.pop()
            if n < 0 or n >= len(stack): raise ScriptFail('INVALID_STACK_OPERATION')
            v = stack[-n-1]
            if op == 0x7a: del stack[-n-1]
            stack.append(v)
        elif op == 0x7b: need(3); stack[-3:] = [stack[-2], stack[-1], stack[-3]]
        elif op == 0x7c: need(2); stack[-2:] = [stack[-1], stack[-2]]
        elif op == 0x7d: need(2); stack.insert(len(stack) - 2, stack[-1])
        elif op == 0x82: need(1); stack.append(num_enc(len(stack[-1])))
        elif op in (0x87, 0x88):
            need(2); eq = stack[-2] == stack[-1]; del stack[-2:]
            stack.append(b'\x01' if eq else b'')
            if op == 0x88:
                if eq: stack.pop()
                else: raise ScriptFail('EQUALVERIFY')
        elif op in (0x8b, 0x8c, 0x8f, 0x90, 0x91, 0x92):
            need(1); n = num(stack[-1])
            n = {0x8b: n + 1, 0x8c: n - 1, 0x8f: -n, 0x90: abs(n), 0x91: int(n == 0), 0x92: int(n != 0)}[op]
            stack.pop(); stack.append(num_enc(n))
        elif op in (0x93, 0x94) or 0x9a <= op <= 0xa4:
            need(2); a = num(stack[-2]); b = num(stack[-1])
            r = {0x93: lambda: a + b, 0x94: lambda: a - b, 0x9a: lambda: int(a != 0 and b != 0), 0x9b: lambda: int(a != 0 or b != 0),
                 0x9c: lambda: int(a == b), 0x9d: lambda: int(a == b), 0x9e: lambda: int(a != b), 0x9f: lambda: int(a < b),
                 0xa0: lambda: int(a > b), 0xa1: lambda: int(a <= b), 0xa2: lambda: int(a >= b), 0xa3: lambda: min(a, b), 0xa4: lambda: max(a, b)}[op]()
            del stack[-2:]; stack.append(num_enc(r))
            if op == 0x9d:
                if cast_bool(stack[-1]): stack.pop()
                else: raise ScriptFail('NUMEQUALVERIFY')
        elif op == 0xa5:
            need(3); x = num(stack[-3]); lo = num(stack[-2]); hi = num(stack[-1])
            del stack[-3:]; stack.append(b'\x01' if lo <= x < hi else b'')
        elif 0xa6 <= op <= 0xaa:
            need(1); v = stack.pop()
            stack.append({0xa6: ripemd, 0xa7: sha1, 0xa8: sha256, 0xa9: lambda b: ripemd(sha256(b)), 0xaa: lambda b: sha256(sha256(b))}[op](v))
        elif op == 0xab:
            codesep_start = nxt
            st.execdata['codesep'] = st.opcode_pos
        elif op in (0xac, 0xad):
            need(2); sig = stack[-2]; key = stack[-1]
            ok = checksig(st, sig, key, script, codesep_start)
            del stack[-2:]; stack.append(b'\x01' if ok else b'')
            if op == 0xad:
                if ok: stack.pop()
                else: raise ScriptFail('CHECKSIGVERIFY')
        elif op == 0xba:
            if sv in (BASE, WITNESS_V0): raise ScriptFail('BAD_OPCODE')
            need(3); sig = stack[-3]; n = num(stack[-2]); key = stack[-1]
            ok = checksig(st, sig, key, script, codesep_start)
            del stack[-3:]; stack.append(num_enc(n + (1 if ok else 0)))
        elif op in (0xae, 0xaf):
            if sv == TAPSCRIPT: raise ScriptFail('TAPSCRIPT_CHECKMULTISIG')
            i = 1; need(i)
            nk = num(stack[-i]); nk = max(min(nk, 2**31 - 1), -2**31)
            if nk < 0 or nk > MAX_KEYS: raise ScriptFail('PUBKEY_COUNT')
            st.nops += nk
            if st.nops > MAX_OPS: raise ScriptFail('OP_COUNT')
            i += 1; ikey = i; ikey2 = nk + 2; i += nk; need(i)
            ns = num(stack[-i]); ns = max(min(ns, 2**31 - 1), -2**31)
            if ns < 0 or ns > nk: raise ScriptFail('SIG_COUNT')
            i += 1; isig = i; i += ns; need(i)
            sc = script[codesep_start:]
            for k in range(ns):
                if sv == BASE:
                    sc, found = find_and_delete(sc, push_enc(stack[-isig-k]))
                    # (a signature listed in a --pretend-valid pair may be pushed by the script itself - the documented usage -: no CONST_SCRIPTCODE error for it, as in CHECKSIG)
                    if found and flags & F['CONST_SCRIPTCODE'] and not any(s_ == stack[-isig-k] and any(stack[-ikey-j] == k_ for j in range(nk)) for s_, k_ in (st.mock or ())): raise ScriptFail('SIG_FINDANDDELETE')
            ok = True
            while ok and ns > 0:
                sig = stack[-isig]; key = stack[-ikey]
                if (sig, key) in st.mock: good = True
                elif st.mock and any(k == key for _, k in st.mock):
                    # a listed key offered another signature inside CHECKMULTISIG: the statement only demands that it is not accepted on the
                    # strength of the option; the tool answers 'no match' without encoding checks, and no more is demanded here
                    good = False
                else:
                    check_sig_encoding(sig, flags); check_pubkey_encoding(key, flags, sv)
                    good = st.ck.check_ecdsa(sig, key, sc, sv)
                if good: isig += 1; ns -= 1
                ikey += 1; nk -= 1
                if ns > nk: ok = False
            while i > 1:
                i -= 1
                if not ok and flags & F['NULLFAIL'] and not ikey2 and len(stack[-1]): raise ScriptFail('SIG_NULLFAIL')
                if ikey2 > 0: ikey2 -= 1
                stack.pop()
            need(1)
            if flags & F['NULLDUMMY'] and len(stack[-1]): raise ScriptFail('SIG_NULLDUMMY')
            stack.pop(); stack.append(b'\x01' if ok else b'')
            if op == 0xaf:
                if ok: stack.pop()
                else: raise ScriptFail('CHECKMULTISIGVERIFY')
        else:
            raise ScriptFail('BAD_OPCODE')
    if len(stack) + len(alt) > MAX_STACK: raise ScriptFail('STACK_SIZE')
    return codesep_start

def checksig(st, sig, key, script, codesep_start):
    sv, flags = st.sv, st.flags
    if (sig, key) in st.mock: return True     # --pretend-valid pair: succeeds regardless of context or encoding rules
    if sv in (BASE, WITNESS_V0):
        sc = script[codesep_start:]
        if sv == BASE:
            sc, found = find_and_delete(sc, push_enc(sig))
            if found and flags & F['CONST_SCRIPTCODE']: raise ScriptFail('SIG_FINDANDDELETE')
        check_sig_encoding(sig, flags); check_pubkey_encoding(key, flags, sv)
        ok = st.ck.check_ecdsa(sig, key, sc, sv)
        if not ok and flags & F['NULLFAIL'] and len(sig): raise ScriptFail('SIG_NULLFAIL')
        return ok
    if sv == TAPROOT:
        r = st.ck.check_schnorr(sig, key, TAPROOT, st.execdata)
        if r is not True: raise ScriptFail(r or 'UNKNOWN')   # BIP341 key path: size / hash type / signature errors (missing spent-output data: no specific error)
        return True
    ok = len(sig) > 0
    if ok and st.execdata['weight'] is not None:
        st.execdata['weight'] -= 50
        if st.execdata['weight'] < 0: raise ScriptFail('TAPSCRIPT_VALIDATION_WEIGHT')
    if len(key) == 0: raise ScriptFail('PUBKEYTYPE')
    if len(key) == 32:
        if ok:
            r = st.ck.check_schnorr(sig, key, TAPSCRIPT, st.execdata)
            if r is not True: raise ScriptFail(r or 'UNKNOWN')
    else:
        if flags & F['DISCOURAGE_UPGRADABLE_PUBKEYTYPE']: raise ScriptFail('DISCOURAGE_UPGRADABLE_PUBKEYTYPE')
    return ok

def ext(st, op, minimal):
    raise ScriptFail('EXT_UNMODELLED')

class _Count(list):
    """trace stand-in that only counts (for very long boundary scripts)"""
    def __init__(self): list.__init__(self); self.n = 0
    def append(self, x): self.n += 1
    def __len__(self): return self.n


def run(script, stack, flags, sv, allow_disabled=False, checker=None, execdata=None, successor=None, keep_trace=True, mock=None):
    """returns (trace, outcome) ; outcome = ('ok', final) | ('err', CODE, index) | ('exc', msg, index) | ('setup', CODE)"""
    if sv in (BASE, WITNESS_V0) and len(script) > MAX_SCRIPT: return [], ('setup', 'SCRIPT_SIZE')   # BIP342: no size limit in tapscript
    st = State(stack, flags, sv, checker, allow_disabled)
    run.last_state = st
    if mock: st.mock = set(mock)
    if execdata: st.execdata.update(execdata)
    trace = [] if keep_trace else _Count()
    snap = st.snap if keep_trace else (lambda: None)
    cur = bytes(script); cs = 0
    # pay-to-script-hash evaluation belongs to a legacy scriptPubKey: a witness script or tapscript leaf of that shape is an ordinary script
    p2sh = sv == BASE and bool(flags & F['P2SH']) and len(cur) == 23 and cur[0] == 0xa9 and cur[1] == 20 and cur[22] == 0x87
    p2shstack = list(st.stack) if p2sh else None
    idx = 0
    while True:
        for e in decode(cur):
            try:
                cs = step(st, cur, e, cs); st.opcode_pos += 1
            except ScriptFail as f: return trace, ('err', f.code, idx)
            except NumErr as f: return trace, ('exc', str(f), idx)
            trace.append(snap()); idx += 1
        if p2sh:
            if not st.stack or not cast_bool(st.stack[-1]): return trace, ('err', 'EVAL_FALSE', idx)
            st.stack = list(p2shstack)
            if len(st.stack[-1]) > MAX_SCRIPT: return trace, ('err', 'SCRIPT_SIZE', idx)     # the redeem script is size-limited like every script of a spend
            cur = st.stack.pop(); cs = 0; st.nops = 0; p2sh = False
            trace.append(snap()); idx += 1
            continue
        if successor:
            cur = bytes(successor); successor = None; cs = 0; st.nops = 0
            if sv in (BASE, WITNESS_V0) and len(cur) > MAX_SCRIPT: return trace, ('err', 'SCRIPT_SIZE', idx)   # every script of a spend is size-limited
            p2sh = sv == BASE and bool(flags & F['P2SH']) and len(cur) == 23 and cur[0] == 0xa9 and cur[1] == 20 and cur[22] == 0x87
            p2shstack = list(st.stack) if p2sh else None
            trace.append(snap()); idx += 1
            continue
        break
    if st.vf: return trace, ('err', 'UNBALANCED_CONDITIONAL', idx)
    trace.append(snap())
    return trace, ('ok', list(st.stack))
