"""E3 independent secp256k1 arithmetic, ECDSA (incl. Core's lax DER parse) and BIP340, written from the specs."""
import hashlib
P = 2**256 - 2**32 - 977
N = 0xFFFFFFFFFFFFFFFFFFFFFFFFFFFFFFFEBAAEDCE6AF48A03BBFD25E8CD0364141
GX = 0x79BE667EF9DCBBAC55A06295CE870B07029BFCDB2DCE28D959F2815B16F81798
GY = 0x483ADA7726A3C4655DA4FBFC0E1108A8FD17B448A68554199C47D08FFB10D4B8
INF = (0, 1, 0)

def jdbl(p):
    X, Y, Z = p
    if Z == 0 or Y == 0: return INF
    S = 4 * X * Y * Y % P; M = 3 * X * X % P
    X2 = (M * M - 2 * S) % P
    return (X2, (M * (S - X2) - 8 * Y * Y * Y * Y) % P, 2 * Y * Z % P)

def jadd(p, q):
    X1, Y1, Z1 = p; X2, Y2, Z2 = q
    if Z1 == 0: return q
    if Z2 == 0: return p
    Z1Z1 = Z1 * Z1 % P; Z2Z2 = Z2 * Z2 % P
    U1 = X1 * Z2Z2 % P; U2 = X2 * Z1Z1 % P; S1 = Y1 * Z2 * Z2Z2 % P; S2 = Y2 * Z1 * Z1Z1 % P
    if U1 == U2:
        return jdbl(p) if S1 == S2 else INF
    H = (U2 - U1) % P; R = (S2 - S1) % P; H2 = H * H % P; H3 = H * H2 % P; V = U1 * H2 % P
    X3 = (R * R - H3 - 2 * V) % P
    return (X3, (R * (V - X3) - S1 * H3) % P, H * Z1 * Z2 % P)

def to_affine(p):
    if p[2] == 0: return None
    zi = pow(p[2], -1, P); zi2 = zi * zi % P
    return (p[0] * zi2 % P, p[1] * zi2 * zi % P)

def jmul(k, pt):
    k %= N; r = INF; q = (pt[0], pt[1], 1)
    while k:
        if k & 1: r = jadd(r, q)
        q = jdbl(q); k >>= 1
    return r

# fixed-base table for G (4-bit windows)
_GT = []
def _init():
    base = (GX, GY, 1)
    for w in range(64):
        row = [INF]; acc = INF
        for i in range(1, 16):
            acc = jadd(acc, base); row.append(acc)
        _GT.append(row)
        for _ in range(4): base = jdbl(base)
_init()
def gmul(k):
    k %= N; r = INF
    for w in range(64):
        d = (k >> (4 * w)) & 15
        if d: r = jadd(r, _GT[w][d])
    return r

def mul(k, pt): return to_affine(jmul(k, pt))
def gen(k): return to_affine(gmul(k))
def add(a, b):
    if a is None: return b
    if b is None: return a
    return to_affine(jadd((a[0], a[1], 1), (b[0], b[1], 1)))

def lift_x(x):
    if x >= P: return None
    c = (pow(x, 3, P) + 7) % P
    y = pow(c, (P + 1) // 4, P)
    if y * y % P != c: return None
    return (x, y if y % 2 == 0 else P - y)

def ser_pub(pt, compressed=True):
    if compressed: return bytes([2 + (pt[1] & 1)]) + pt[0].to_bytes(32, 'big')
    return b'\x04' + pt[0].to_bytes(32, 'big') + pt[1].to_bytes(32, 'big')

def parse_pub(b):
    """CPubKey + secp256k1_ec_pubkey_parse semantics: 33 bytes 02/03, 65 bytes 04/06/07"""
    if len(b) == 33 and b[0] in (2, 3):
        x = int.from_bytes(b[1:], 'big')
        pt = lift_x(x)
        if pt is None: return None
        if (pt[1] & 1) != (b[0] & 1): pt = (pt[0], P - pt[1])
        return pt
    if len(b) == 65 and b[0] in (4, 6, 7):
        x = int.from_bytes(b[1:33], 'big'); y = int.from_bytes(b[33:], 'big')
        if x >= P or y >= P: return None
        if (y * y - x * x * x - 7) % P: return None
        if b[0] == 6 and (y & 1): return None
        if b[0] == 7 and not (y & 1): return None
        return (x, y)
    return None

def tagged(tag, msg):
    t = hashlib.sha256(tag.encode()).digest()
    return hashlib.sha256(t + t + msg).digest()

# --- ECDSA
def der_int(v):
    b = v.to_bytes((v.bit_length() + 8) // 8 or 1, 'big')
    return b'\x02' + bytes([len(b)]) + b
def der_sig(r, s):
    body = der_int(r) + der_int(s)
    return b'\x30' + bytes([len(body)]) + body

def ecdsa_sign(d, z32, low_s=True, k=None):
    z = int.from_bytes(z32, 'big')
    ctr = 0
    while True:
        kk = k or (int.from_bytes(hashlib.sha256(d.to_bytes(32, 'big') + z32 + bytes([ctr])).digest(), 'big') % N)
        ctr += 1
        if kk == 0: continue
        R = gen(kk); r = R[0] % N
        if r == 0: continue
        s = pow(kk, -1, N) * (z + r * d) % N
        if s == 0: continue
        if low_s and s > N // 2: s = N - s
        return r, s

def ecdsa_verify_rs(pt, z32, r, s):
    if not (1 <= r < N and 1 <= s < N): return False
    z = int.from_bytes(z32, 'big')
    w = pow(s, -1, N)
    R = to_affine(jadd(gmul(z * w % N), jmul(r * w % N, pt)))
    return R is not None and R[0] % N == r

def lax_der_parse(sig):
    """Core's ecdsa_signature_parse_der_lax: returns (r, s) or None; overflowing/oversized values -> (0,0)"""
    b = sig; n = len(b); pos = 0
    if pos == n or b[pos] != 0x30: return None
    pos += 1
    if pos == n: return None
    lenbyte = b[pos]; pos += 1
    if lenbyte & 0x80:
        lenbyte -= 0x80
        if lenbyte > n - pos: return None
        pos += lenbyte
    def read_int(pos):
        if pos == n or b[pos] != 0x02: return None
        pos += 1
        if pos == n: return None
        lb = b[pos]; pos += 1
        if lb & 0x80:
            lb -= 0x80
            if lb > n - pos: return None
            while lb > 0 and b[pos] == 0: pos += 1; lb -= 1
            if lb >= 4: return None
            ln = 0
            while lb > 0: ln = (ln << 8) + b[pos]; pos += 1; lb -= 1
        else:
            ln = lb
        if ln > n - pos: return None
        return pos, ln
    r = read_int(pos)
    if r is None: return None
    rpos, rlen = r; pos = rpos + rlen
    s = read_int(pos)
    if s is None: return None
    spos, slen = s
    def val(p, l):
        while l > 0 and b[p] == 0: p += 1; l -= 1
        if l > 32: return None
        return int.from_bytes(b[p:p + l], 'big')
    rv = val(rpos, rlen); sv = val(spos, slen)
    if rv is None or sv is None or rv >= N or sv >= N: return (0, 0)
    return (rv, sv)

def ecdsa_verify_lax(pubbytes, z32, sig_der):
    pt = parse_pub(pubbytes)
    if pt is None: return False
    rs = lax_der_parse(sig_der)
    if rs is None: return False
    r, s = rs
    if s > N // 2: s = N - s   # normalize
    return ecdsa_verify_rs(pt, z32, r, s)

# --- BIP340
def xonly(pt): return pt[0].to_bytes(32, 'big')
def schnorr_sign(d, msg32, aux=b'\x00' * 32):
    Pt = gen(d)
    if Pt[1] & 1: d = N - d
    t = (d ^ int.from_bytes(tagged('BIP0340/aux', aux), 'big')).to_bytes(32, 'big')
    k = int.from_bytes(tagged('BIP0340/nonce', t + xonly(Pt) + msg32), 'big') % N
    R = gen(k)
    if R[1] & 1: k = N - k
    e = int.from_bytes(tagged('BIP0340/challenge', xonly(R) + xonly(Pt) + msg32), 'big') % N
    return xonly(R) + ((k + e * d) % N).to_bytes(32, 'big')

def schnorr_verify(pk32, msg32, sig64):
    if len(pk32) != 32 or len(sig64) != 64: return False
    Pt = lift_x(int.from_bytes(pk32, 'big'))
    if Pt is None: return False
    r = int.from_bytes(sig64[:32], 'big'); s = int.from_bytes(sig64[32:], 'big')
    if r >= P or s >= N: return False
    e = int.from_bytes(tagged('BIP0340/challenge', sig64[:32] + pk32 + msg32), 'big') % N
    R = to_affine(jadd(gmul(s), jmul(N - e, Pt)))
    return R is not None and R[1] % 2 == 0 and R[0] == r

def taproot_tweak_pub(pk32, h):
    Pt = lift_x(int.from_bytes(pk32, 'big'))
    if Pt is None: return None
    t = int.from_bytes(tagged('TapTweak', pk32 + h), 'big')
    if t >= N: return None
    Q = add(Pt, gen(t)) if t else Pt
    if Q is None: return None
    return xonly(Q), Q[1] & 1

def taproot_tweak_sec(d, h):
    Pt = gen(d)
    if Pt[1] & 1: d = N - d
    t = int.from_bytes(tagged('TapTweak', xonly(Pt) + h), 'big')
    return (d + t) % N
