"""Self-validation of the reference library, independent of the tree's code:
(i) the six real-chain pairs in doc/txs verify (five) / fail (the invalid-order one) under ref.verify alone;
(ii) fixed published vectors (BIP340 vector 0, hashes of ''/'abc', BIP173/350 strings)."""
import hashlib
import os

from . import script as R, secp, tx as T, verify as V

REPO = os.environ.get('VERIF_REPO', '/repo')


def main():
    # BIP340 test vector 0
    sk = 3
    pk = bytes.fromhex('F9308A019258C31049344F85F89D5229B531C845836F99B08601F113BCE036F9')
    assert secp.xonly(secp.gen(sk)) == pk
    sig = secp.schnorr_sign(sk, bytes(32), bytes(32))
    assert sig.hex().upper() == 'E907831F80848D1069A5371B402410364BDF1C5F8307B0084C55F1CE2DCA821525F66A4A85EA8B71E482A74F382D2CE5EBEEE8FDB2172F477DF4900D310536C0', sig.hex()
    assert secp.schnorr_verify(pk, bytes(32), sig)
    assert not secp.schnorr_verify(pk, b'\x01' + bytes(31), sig)
    assert hashlib.new('ripemd160', b'abc').hexdigest() == '8eb208f7e05d987a9b044a8e98c6b087f15a0bfc'
    assert R.sha256(b'abc').hex() == 'ba7816bf8f01cfea414140de5dae2223b00361a396177a9cb410ff61f20015ad'
    # ECDSA sign/verify round trip incl. lax DER
    r, s = secp.ecdsa_sign(12345, R.sha256(b'm'))
    assert secp.ecdsa_verify_lax(secp.ser_pub(secp.gen(12345)), R.sha256(b'm'), secp.der_sig(r, s))
    assert not secp.ecdsa_verify_lax(secp.ser_pub(secp.gen(12346)), R.sha256(b'm'), secp.der_sig(r, s))
    # script numbers
    for n in (0, 1, -1, 127, 128, -128, 255, 256, 2 ** 31 - 1, -(2 ** 31 - 1)):
        assert R.num_dec(R.num_enc(n), True, 5) == n
    want = {'p2pkh': None, 'p2sh-p2wpkh': None, 'p2sh-multisig-2-of-2': None, 'p2sh-multisig-invalid-order': 'SIG_NULLFAIL', 'p2tr': None, 'p2ts': None}
    d = os.path.join(REPO, 'doc', 'txs')
    if os.path.isdir(d):
        for name, exp in want.items():
            tx = T.Tx.parse(bytes.fromhex(open(os.path.join(d, name + '-tx')).read().strip()))
            fin = T.Tx.parse(bytes.fromhex(open(os.path.join(d, name + '-in')).read().strip()))
            assert tx.ser().hex() == open(os.path.join(d, name + '-tx')).read().strip()
            n = 0
            for i, vin in enumerate(tx.vin):
                if vin['txid'] == fin.txid():
                    out = fin.vout[vin['n']]
                    ck = V.Checker(tx, i, out['value'], [out] if len(tx.vin) == 1 else None)
                    e = V.verify_script(vin['script'], out['spk'], vin['wit'], V.STANDARD, ck)
                    assert e == exp, (name, e, exp)
                    n += 1
            assert n >= 1, name
    print('reference self-validation ok')


if __name__ == '__main__':
    main()
