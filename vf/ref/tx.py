"""E3 transaction codec and legacy / BIP143 / BIP341 signature hashes."""
import hashlib, struct
from .secp import tagged
def sha256(b): return hashlib.sha256(b).digest()
def dsha(b): return sha256(sha256(b))
def cs(n):
    if n < 253: return bytes([n])
    if n <= 0xffff: return b'\xfd' + struct.pack('<H', n)
    if n <= 0xffffffff: return b'\xfe' + struct.pack('<I', n)
    return b'\xff' + struct.pack('<Q', n)
class Rd:
    def __init__(s, b): s.b = b; s.p = 0
    def take(s, n):
        if s.p + n > len(s.b): raise ValueError('end of data')
        r = s.b[s.p:s.p+n]; s.p += n; return r
    def u8(s): return s.take(1)[0]
    def u32(s): return struct.unpack('<I', s.take(4))[0]
    def i32(s): return struct.unpack('<i', s.take(4))[0]
    def i64(s): return struct.unpack('<q', s.take(8))[0]
    def cs(s):
        c = s.u8()
        if c < 253: v = c
        elif c == 253:
            v = struct.unpack('<H', s.take(2))[0]
            if v < 253: raise ValueError('non-canonical')
        elif c == 254:
            v = s.u32()
            if v < 0x10000: raise ValueError('non-canonical')
        else:
            v = struct.unpack('<Q', s.take(8))[0]
            if v < 0x100000000: raise ValueError('non-canonical')
        if v > 0x02000000: raise ValueError('size too large')
        return v
    def vs(s): return s.take(s.cs())
class Tx:
    def __init__(s): s.version = 2; s.vin = []; s.vout = []; s.locktime = 0
    # vin: dict(txid=32 bytes LE-as-serialized, n, script, seq, wit=[..]); vout: dict(value, spk)
    @staticmethod
    def parse(b):
        r = Rd(b); t = Tx(); t.version = r.i32(); flags = 0
        def rin():
            return [dict(txid=r.take(32), n=r.u32(), script=r.vs(), seq=r.u32(), wit=[]) for _ in range(r.cs())]
        def rout():
            return [dict(value=r.i64(), spk=r.vs()) for _ in range(r.cs())]
        t.vin = rin()
        if not t.vin:
            flags = r.u8()
            if flags != 0:
                t.vin = rin(); t.vout = rout()
        else:
            t.vout = rout()
        if flags & 1:
            flags ^= 1
            for i in t.vin: i['wit'] = [r.vs() for _ in range(r.cs())]
            if not any(i['wit'] for i in t.vin): raise ValueError('superfluous witness')
        if flags: raise ValueError('unknown optional data')
        t.locktime = r.u32(); t.consumed = r.p
        return t
    def ser(s, wit=True):
        w = wit and any(i['wit'] for i in s.vin)
        o = struct.pack('<i', s.version)
        if w: o += b'\x00\x01'
        o += cs(len(s.vin)) + b''.join(i['txid'] + struct.pack('<I', i['n']) + cs(len(i['script'])) + i['script'] + struct.pack('<I', i['seq']) for i in s.vin)
        o += cs(len(s.vout)) + b''.join(struct.pack('<q', v['value']) + cs(len(v['spk'])) + v['spk'] for v in s.vout)
        if w:
            for i in s.vin: o += cs(len(i['wit'])) + b''.join(cs(len(x)) + x for x in i['wit'])
        return o + struct.pack('<I', s.locktime)
    def txid(s): return dsha(s.ser(False))        # internal byte order
    def txid_hex(s): return s.txid()[::-1].hex()

def ser_out(v): return struct.pack('<q', v['value']) + cs(len(v['spk'])) + v['spk']

def strip_codesep(script):
    from . import script as R
    out = b''; pc = 0
    for e in R.decode(script):
        if e is None: out += script[pc:]; break
        op, data, nxt = e
        if op != 0xab: out += script[pc:nxt]
        pc = nxt
    return out

def sighash_legacy(tx, nin, scriptcode, ht):
    if (ht & 0x1f) == 3 and nin >= len(tx.vout): return (1).to_bytes(32, 'little')
    sc = strip_codesep(scriptcode)
    acp = bool(ht & 0x80); single = (ht & 0x1f) == 3; none = (ht & 0x1f) == 2
    o = struct.pack('<i', tx.version)
    ins = [nin] if acp else range(len(tx.vin))
    o += cs(len(ins))
    for k in ins:
        i = tx.vin[k]
        o += i['txid'] + struct.pack('<I', i['n'])
        o += (cs(len(sc)) + sc) if k == nin else b'\x00'
        o += struct.pack('<I', 0 if (k != nin and (single or none)) else i['seq'])
    nout = 0 if none else (nin + 1 if single else len(tx.vout))
    o += cs(nout)
    for k in range(nout):
        o += (struct.pack('<q', -1) + b'\x00') if (single and k != nin) else ser_out(tx.vout[k])
    o += struct.pack('<I', tx.locktime) + struct.pack('<i', ht)
    return dsha(o)

def sighash_v0(tx, nin, scriptcode, amount, ht):
    z = bytes(32); hp = hs = ho = z
    if not ht & 0x80: hp = dsha(b''.join(i['txid'] + struct.pack('<I', i['n']) for i in tx.vin))
    if not ht & 0x80 and (ht & 0x1f) not in (2, 3): hs = dsha(b''.join(struct.pack('<I', i['seq']) for i in tx.vin))
    if (ht & 0x1f) not in (2, 3): ho = dsha(b''.join(ser_out(v) for v in tx.vout))
    elif (ht & 0x1f) == 3 and nin < len(tx.vout): ho = dsha(ser_out(tx.vout[nin]))
    i = tx.vin[nin]
    o = struct.pack('<i', tx.version) + hp + hs + i['txid'] + struct.pack('<I', i['n']) + cs(len(scriptcode)) + scriptcode + struct.pack('<q', amount) + struct.pack('<I', i['seq']) + ho + struct.pack('<I', tx.locktime) + struct.pack('<i', ht)
    return dsha(o)

def sighash_taproot(tx, nin, spent, ht, annex=None, leaf=None, codesep=0xffffffff):
    """spent: list of dict(value, spk) for every input; returns None if hash type invalid"""
    if not (ht <= 3 or 0x81 <= ht <= 0x83): return None
    out_t = 1 if ht == 0 else ht & 3; acp = (ht & 0x80) == 0x80
    o = b'\x00' + bytes([ht]) + struct.pack('<i', tx.version) + struct.pack('<I', tx.locktime)
    if not acp:
        o += sha256(b''.join(i['txid'] + struct.pack('<I', i['n']) for i in tx.vin))
        o += sha256(b''.join(struct.pack('<q', s['value']) for s in spent))
        o += sha256(b''.join(cs(len(s['spk'])) + s['spk'] for s in spent))
        o += sha256(b''.join(struct.pack('<I', i['seq']) for i in tx.vin))
    if out_t == 1: o += sha256(b''.join(ser_out(v) for v in tx.vout))
    o += bytes([(2 if leaf is not None else 0) + (1 if annex is not None else 0)])
    if acp:
        i = tx.vin[nin]; o += i['txid'] + struct.pack('<I', i['n']) + ser_out(spent[nin]) + struct.pack('<I', i['seq'])
    else: o += struct.pack('<I', nin)
    if annex is not None: o += sha256(cs(len(annex)) + annex)
    if out_t == 3:
        if nin >= len(tx.vout): return None
        o += sha256(ser_out(tx.vout[nin]))
    if leaf is not None: o += leaf + b'\x00' + struct.pack('<I', codesep)
    return tagged('TapSighash', o)
