"""E3 signature checker and VerifyScript reference (all output types, 21 flags)."""
import hashlib, struct
from . import script as R, secp, tx as reftx
from .script import F, BASE, WITNESS_V0, TAPROOT, TAPSCRIPT
sha256 = R.sha256
class Checker:
    def __init__(s, tx, nin, amount, spent=None): s.tx = tx; s.nin = nin; s.amount = amount; s.spent = spent
    def check_ecdsa(s, sig, key, scriptcode, sv):
        if secp.parse_pub(key) is None and not (len(key) in (33, 65)): return False
        if not sig: return False
        ht = sig[-1]; der = sig[:-1]
        h = reftx.sighash_v0(s.tx, s.nin, scriptcode, s.amount, ht) if sv == WITNESS_V0 else reftx.sighash_legacy(s.tx, s.nin, scriptcode, ht)
        return secp.ecdsa_verify_lax(key, h, der)
    def check_schnorr(s, sig, key, sv, ed):
        if len(sig) not in (64, 65): return 'SCHNORR_SIG_SIZE'
        ht = 0
        if len(sig) == 65:
            ht = sig[64]; sig = sig[:64]
            if ht == 0: return 'SCHNORR_SIG_HASHTYPE'
        if s.spent is None: return None  # missing data -> plain failure
        h = reftx.sighash_taproot(s.tx, s.nin, s.spent, ht, ed['annex'], ed['leaf'] if sv == TAPSCRIPT else None, ed['codesep'])
        if h is None: return 'SCHNORR_SIG_HASHTYPE'
        return True if secp.schnorr_verify(key, h, sig) else 'SCHNORR_SIG'
    def check_locktime(s, n):
        lt = s.tx.locktime
        if not ((lt < 500000000 and n < 500000000) or (lt >= 500000000 and n >= 500000000)): return False
        if n > lt: return False
        return s.tx.vin[s.nin]['seq'] != 0xffffffff
    def check_sequence(s, n):
        seq = s.tx.vin[s.nin]['seq']
        if (s.tx.version & 0xffffffff) < 2: return False
        if seq & (1 << 31): return False
        mask = (1 << 22) | 0xffff
        a = seq & mask; b = n & mask
        if not ((a < (1 << 22) and b < (1 << 22)) or (a >= (1 << 22) and b >= (1 << 22))): return False
        return b <= a

def is_p2sh(s): return len(s) == 23 and s[0] == 0xa9 and s[1] == 20 and s[22] == 0x87
def witness_program(s):
    if len(s) < 4 or len(s) > 42: return None
    if s[0] != 0 and not (0x51 <= s[0] <= 0x60): return None
    if s[1] + 2 != len(s): return None
    return (0 if s[0] == 0 else s[0] - 0x50), s[2:]
def push_only(s):
    for e in R.decode(s):
        if e is None or e[0] > 0x60: return False
    return True
OPSUCCESS = lambda o: o == 80 or o == 98 or 126 <= o <= 129 or 131 <= o <= 134 or 137 <= o <= 138 or 141 <= o <= 142 or 149 <= o <= 153 or 187 <= o <= 254

def eval_script(stack, script, flags, ck, sv, execdata=None):
    tr, oc = R.run(script, stack, flags & ~F['P2SH'], sv, checker=ck, execdata=execdata)
    if oc[0] == 'ok': return True, oc[1], None
    if oc[0] == 'setup': return False, None, oc[1]
    return False, None, (oc[1] if oc[0] == 'err' else 'UNKNOWN')

def tapleaf(ver, script): return secp.tagged('TapLeaf', bytes([ver]) + reftx.cs(len(script)) + script)
def taproot_root(control, leaf):
    k = leaf
    for i in range((len(control) - 33) // 32):
        n = control[33 + 32 * i: 65 + 32 * i]
        k = secp.tagged('TapBranch', k + n if k < n else n + k)
    return k
def verify_commitment(control, program, leaf):
    r = secp.taproot_tweak_pub(control[1:33], taproot_root(control, leaf))
    return r is not None and r[0] == program and r[1] == (control[0] & 1)

def exec_witness_script(stack, script, flags, sv, ck, execdata):
    if sv == TAPSCRIPT:
        for e in R.decode(script):
            if e is None: return 'BAD_OPCODE'
            if OPSUCCESS(e[0]): return 'DISCOURAGE_OP_SUCCESS' if flags & F['DISCOURAGE_OP_SUCCESS'] else None
        if len(stack) > 1000: return 'STACK_SIZE'
    if any(len(x) > 520 for x in stack): return 'PUSH_SIZE'
    ok, st, err = eval_script(stack, script, flags, ck, sv, execdata)
    if not ok: return err
    if len(st) != 1: return 'CLEANSTACK'
    if not R.cast_bool(st[-1]): return 'EVAL_FALSE'
    return None

def verify_witness_program(wit, ver, prog, flags, ck, is_p2sh_):
    stack = list(wit)
    if ver == 0:
        if len(prog) == 32:
            if not stack: return 'WITNESS_PROGRAM_WITNESS_EMPTY'
            script = stack.pop()
            if sha256(script) != prog: return 'WITNESS_PROGRAM_MISMATCH'
            return exec_witness_script(stack, script, flags, WITNESS_V0, ck, None)
        if len(prog) == 20:
            if len(stack) != 2: return 'WITNESS_PROGRAM_MISMATCH'
            return exec_witness_script(stack, b'\x76\xa9\x14' + prog + b'\x88\xac', flags, WITNESS_V0, ck, None)
        return 'WITNESS_PROGRAM_WRONG_LENGTH'
    if ver == 1 and len(prog) == 32 and not is_p2sh_:
        if not flags & F['TAPROOT']: return None
        if not stack: return 'WITNESS_PROGRAM_WITNESS_EMPTY'
        annex = None
        if len(stack) >= 2 and stack[-1] and stack[-1][0] == 0x50: annex = stack.pop()
        ed = {'annex': annex, 'leaf': None, 'codesep': 0xffffffff, 'weight': None}
        if len(stack) == 1:
            r = ck.check_schnorr(stack[0], prog, TAPROOT, ed)
            return None if r is True else (r or 'UNKNOWN')
        control = stack.pop(); script = stack.pop()
        if len(control) < 33 or len(control) > 33 + 32 * 128 or (len(control) - 33) % 32: return 'TAPROOT_WRONG_CONTROL_SIZE'
        ed['leaf'] = tapleaf(control[0] & 0xfe, script)
        if not verify_commitment(control, prog, ed['leaf']): return 'WITNESS_PROGRAM_MISMATCH'
        if control[0] & 0xfe == 0xc0:
            ed['weight'] = len(reftx.cs(len(wit)) + b''.join(reftx.cs(len(x)) + x for x in wit)) + 50
            return exec_witness_script(stack, script, flags, TAPSCRIPT, ck, ed)
        if flags & F['DISCOURAGE_UPGRADABLE_TAPROOT_VERSION']: return 'DISCOURAGE_UPGRADABLE_TAPROOT_VERSION'
        return None
    if flags & F['DISCOURAGE_UPGRADABLE_WITNESS_PROGRAM']: return 'DISCOURAGE_UPGRADABLE_WITNESS_PROGRAM'
    return None

def verify_script(scriptsig, spk, wit, flags, ck):
    """returns None if valid else error code"""
    if flags & F['SIGPUSHONLY'] and not push_only(scriptsig): return 'SIG_PUSHONLY'
    ok, stack, err = eval_script([], scriptsig, flags, ck, BASE)
    if not ok: return err
    copy = list(stack)
    ok, stack, err = eval_script(stack, spk, flags, ck, BASE)
    if not ok: return err
    if not stack or not R.cast_bool(stack[-1]): return 'EVAL_FALSE'
    had = False
    if flags & F['WITNESS']:
        wp = witness_program(spk)
        if wp:
            had = True
            if scriptsig: return 'WITNESS_MALLEATED'
            e = verify_witness_program(wit, wp[0], wp[1], flags, ck, False)
            if e: return e
            stack = stack[:1]
    if flags & F['P2SH'] and is_p2sh(spk):
        if not push_only(scriptsig): return 'SIG_PUSHONLY'
        stack = copy; redeem = stack.pop()
        ok, stack, err = eval_script(stack, redeem, flags, ck, BASE)
        if not ok: return err
        if not stack or not R.cast_bool(stack[-1]): return 'EVAL_FALSE'
        if flags & F['WITNESS']:
            wp = witness_program(redeem)
            if wp:
                had = True
                if scriptsig != R.push_enc(redeem): return 'WITNESS_MALLEATED_P2SH'
                e = verify_witness_program(wit, wp[0], wp[1], flags, ck, True)
                if e: return e
                stack = stack[:1]
    if flags & F['CLEANSTACK'] and len(stack) != 1: return 'CLEANSTACK'
    if flags & F['WITNESS'] and not had and wit: return 'WITNESS_UNEXPECTED'
    return None

STANDARD = sum(F[n] for n in R.FLAGS if n != 'SIGPUSHONLY')
if __name__ == '__main__':
    import sys, time
    for name in ['p2pkh', 'p2sh-p2wpkh', 'p2sh-multisig-2-of-2', 'p2sh-multisig-invalid-order', 'p2tr', 'p2ts']:
        tx = reftx.Tx.parse(bytes.fromhex(open('/repo/doc/txs/%s-tx' % name).read().strip()))
        fin = reftx.Tx.parse(bytes.fromhex(open('/repo/doc/txs/%s-in' % name).read().strip()))
        assert tx.ser() == bytes.fromhex(open('/repo/doc/txs/%s-tx' % name).read().strip())
        fid = fin.txid()
        res = []
        for i, vin in enumerate(tx.vin):
            if vin['txid'] == fid:
                out = fin.vout[vin['n']]
                spent = [out] if len(tx.vin) == 1 else None
                ck = Checker(tx, i, out['value'], spent)
                t = time.time(); e = verify_script(vin['script'], out['spk'], vin['wit'], STANDARD, ck)
                res.append((i, len(tx.vin), e, round(time.time() - t, 3)))
        print(name, fin.txid_hex()[:16], res)
