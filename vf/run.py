"""python3-vt -m vf.run <id> --tier quick|thorough [--replay file]"""
import argparse
import importlib
import json
import os
import sys
import time

from . import build, core


def main():
    ap = argparse.ArgumentParser()
    ap.add_argument('pid')
    ap.add_argument('--tier', default=os.environ.get('VERIF_TIER') or 'quick', choices=['quick', 'thorough'])
    ap.add_argument('--replay')
    a = ap.parse_args()
    pid = a.pid.upper()
    mod = importlib.import_module('vf.checks.' + pid.lower())
    try:
        for v in getattr(mod, 'VARIANTS', ['plain']):
            build.ensure(v)
    except build.BuildError as e:
        print('INFRASTRUCTURE ERROR: build failed\n%s' % e, file=sys.stderr)
        sys.exit(2)
    if a.replay:
        rec = json.load(open(a.replay))
        if isinstance(rec.get('case'), dict) and rec['case'].get('harness_history'):
            from .harness import replay_history
            died = replay_history(rec['case']['harness_history'], rec['case'].get('variant', 'plain'))
            ok, msg = (not died), ('still failing: the harness process dies (%r) at the end of the recorded request history' % died if died else 'ok')
        else:
            ok, msg = mod.replay(rec)
        print(msg)
        if not ok:
            print('VIOLATION property=%s replay=%s' % (pid, a.replay))
            sys.exit(1)
        print('replay passes: property holds on this case')
        sys.exit(0)
    t0 = time.time()
    status = mod.run(a.tier, t0)
    sys.exit(status)


if __name__ == '__main__':
    main()
