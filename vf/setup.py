"""MANIFEST.setup_cmd: byte-compile vf, self-validate the reference library, warm the build cache. Offline, files on disk only."""
import compileall
import os
import sys

from . import build


def validate_reference():
    from .ref import selftest
    selftest.main()


def main():
    here = os.path.dirname(os.path.abspath(__file__))
    compileall.compile_dir(here, quiet=1)
    validate_reference()
    for v in ('plain',):
        build.ensure(v)
    print('setup ok')


if __name__ == '__main__':
    main()
